"""Per-property configuration of bin/check (single source for MANIFEST.json)."""

CHECKS = {}
NOT_APPLICABLE = []

CHECKS["C14"] = dict(
    pkg="c14", level="exploration",
    props=[
        dict(name="TestPropSchedule", quick=300000, thorough=16 * 1000000, shards_thorough=16, shards_quick=4),
        dict(name="TestEnumSweep", rapid=False, quick=1, thorough=1, shards_quick=8, shards_thorough=16),
    ],
    rule="rapid draws (start,end) minute pairs (biased to equal / adjacent / wrapping), a weekday subset, 0-3 dates "
         "near the instant and an instant biased to +-1 s / +-1 ns around window boundaries of D-1..D+1 and around "
         "week, month, year ends and leap days; oracle = reference in integer Unix seconds with an own civil-date "
         "algorithm, plus invariance under re-expressing the instant in a drawn fixed zone. Non-trivial = end<=start, "
         "instant after midnight within yesterday's window span, and the filters allow exactly one of D-1 and D.",
    assumptions=["start/end are rendered H:MM or HH:MM from 0..1439 minutes (the documented form)",
                 "dates are rendered YYYY-MM-DD; instants lie in years 1915-2134",
                 "schedule.activeForTime is reached through a build-time overlay shim in package client"],
    level_text="Generated search (rapid) over schedule x instant against an independent integer-seconds reference, plus "
               "complete enumeration of two finite sub-spaces in the thorough tier; exploration is the right level "
               "because the function is pure and cheap (about 1 us per evaluation), so millions of boundary-biased cases are explored.",
    level_note="Trusted: the reference model in harness/c14 (written from the property statement), Go's time.Unix/In.",
    technique="property-based testing (rapid) against a reference model + exhaustive enumeration of sub-spaces",
    design_ref="DESIGN.md section 4, C14",
)

CHECKS["C01"] = dict(
    pkg="c01", level="exploration",
    props=[dict(name="TestPropNewestWins", quick=360, thorough=16 * 5000, shards_quick=12, shards_thorough=16)],
    rule="rapid draws 2-4 targets among three nodes and four edges (one node mirrored under two parents, the root's own "
         "edge), per target 1-10 identities from a colliding alphabet (type+key concatenations that coincide, key \"\"/\"0\" "
         "spellings), per identity 1-5 points with distinct timestamps (dense, +-1 ns, pre-1970, near int64 limits) and "
         "independent random value/text/data/tombstone/origin; two independent deliveries (permutation + up to 8 "
         "re-deliveries, cut into per-target batches of 1-8) go to two fresh instances. Oracle: after every acknowledged "
         "batch the read of the target equals a newest-wins map; both instances end up equal. Non-trivial = a delivery "
         "contains a point older than the one held at that moment AND a batch with >=2 points of one identity.",
    assumptions=["timestamps are distinct per identity and never the zero time (outside the quantifier)",
                 "strings are valid UTF-8 (the wire format rejects anything else); NaN values belong to C05",
                 "values are compared with == (+0 equals -0); bit equality is C12's business",
                 "node-type edge points and tombstones aimed at the root are excluded here (not stored / refused by design, C05)"],
    level_text="Generated histories (rapid) against a newest-wins reference map with a metamorphic second delivery order; each "
               "case runs two real store instances over an in-process NATS server, so the whole write path (decode, Collapse, "
               "SQL upsert, read) is exercised.",
    level_note="Trusted: the reference map in harness/internal/model, the NATS request/reply transport.",
    technique="property-based testing (rapid): model-based comparison after every batch + order-independence metamorphic relation",
    design_ref="DESIGN.md section 4, C01",
)

_SM_RULE = ("rapid state machine (t.Repeat, about 30 steps per case) over one real instance: create (points-first or "
            "edge-first), mirror under a second parent, place under a parent id that has no edge yet, attach an edge above "
            "an already populated subtree, tombstone/undelete (fresh or stale timestamp), node-point and edge-point batches "
            "(1-4 points, colliding identities, stale times, -0/Inf/subnormal values), re-delivery of earlier batches, points "
            "written without a time (stamped by the store, read back and checked against the wall-clock window), the public "
            "helpers client.MirrorNode / MoveNode / DeleteNode on valid targets; new edges are sometimes born deleted or "
            "without any tombstone point; once per case a chain of 18-24 nodes (writes far below the root) and a batch of "
            "129-300 points; writes that carry the time of the stored point with other content (the model takes over what is "
            "read back); a helper request that times out (1 s, hard-coded) abandons the case as inconclusive; "
            "after EVERY step the full dump (walk from the root, deleted included, plus detached placements) is compared "
            "with the model graph: edge set, types, newest point per identity, and every stored hash against the Merkle "
            "hash recomputed from the dump by an independent CRC/XOR implementation; every write's up.> traffic is "
            "compared with the ancestor sets of the model. ")

CHECKS["C03"] = dict(
    pkg="c03", level="exploration",
    props=[dict(name="TestPropMerkle", quick=240, thorough=16 * 600, shards_quick=12, shards_thorough=16,
                timeout_quick=900, timeout_thorough=7200)],
    rule=_SM_RULE + "C03 additionally requests admin.storeVerify and admin.storeMaint every 4th step and demands that "
         "maintenance changes nothing. Non-trivial = the graph has a mirror or a late-attached parent AND an edge-point "
         "write happened.",
    assumptions=["writes are sequential, so every step is quiescent",
                 "node-type points count as CRC 0 (they are not stored, by design)",
                 "timestamps distinct per identity"],
    level_text="Generated histories (rapid state machine) with the Merkle equality as an invariant after every step, computed "
               "from read results by an independent implementation of the documented definition; equal content => equal "
               "hash follows because the oracle is a function of content only.",
    level_note="Trusted: harness/internal/model (CRC-32 IEEE over LE64 time|type|key|text|LE64 value bits; XOR over points and "
               "recomputed child hashes), the read path (a read that misreports content would have to do so consistently).",
    technique="property-based testing (rapid state machine) with an independent Merkle-hash reference as invariant",
    design_ref="DESIGN.md section 4, C03",
)

CHECKS["C05"] = dict(
    pkg="c05", level="exploration",
    props=[dict(name="TestPropRefusals", quick=300, thorough=16 * 900, shards_quick=12, shards_thorough=16,
                timeout_quick=900, timeout_thorough=7200)],
    rule=_SM_RULE + "C05 adds refusal candidates built from the model: node as its own parent, an edge that closes a cycle "
         "through live or deleted edges (also via detached parents, with the root itself as the node, with the closing edge "
         "born deleted), tombstone aimed at the root (any value that reads as deleted: 1, 3, 5, 2.5, 1001; key \"\" or \"0\"), "
         "first edge without node type, NaN (quiet/signalling-style payloads, either sign) at a drawn position of a node- or "
         "edge-point batch (also in a stale point of a held identity, also shadowed by a newer point of its identity in the "
         "same batch), undecodable payload, client.MoveNode / MirrorNode of a node below itself. Each must be answered with an error, leave the dump (hashes included) identical, produce no "
         "up.> message, and a following valid write must be acknowledged. Non-trivial = a cycle-through-deleted-edge or a "
         "NaN-in-the-middle candidate was issued on a graph with >= 4 edges.",
    assumptions=["even tombstone values (2, 4: 'not deleted') aimed at the root are not generated: the statement does not say whether they are refused",
                 "a request that gets no reply within 20 s counts as a violation (the instance stopped answering)"],
    level_text="Generated histories (rapid state machine) with refusal candidates derived from the model graph; the no-trace "
               "oracle compares complete dumps before and after and watches the rebroadcast stream on the same connection.",
    level_note="Trusted: model reachability (WouldCycle through all edges), ordering of NATS deliveries on one connection "
               "(everything the store published before its reply is queued before the reply is seen).",
    technique="property-based testing (rapid state machine), model-derived invalid inputs, before/after dump equality",
    design_ref="DESIGN.md section 4, C05",
)

CHECKS["C06"] = dict(
    pkg="c06", level="exploration",
    props=[dict(name="TestPropRebroadcast", quick=300, thorough=16 * 900, shards_quick=12, shards_thorough=16,
                timeout_quick=900, timeout_thorough=7200)],
    rule=_SM_RULE + "C06 oracle, for every accepted write: subjects seen on up.> between request and reply must include "
         "up.<a>.<node>[.<parent>] for the node itself and every ancestor (node points: through non-deleted edges; edge "
         "points: through any edges), the root sentinel included when the root is reached, at least once each; no other "
         "subject may appear (up.root.* tolerated for nodes not connected to the root); every message carries exactly the "
         "points sent. Non-trivial = some write had >= 3 ancestors to notify and the graph has a tombstoned edge or a mirror.",
    assumptions=["duplicates are legal (diamonds produce them)", "the expected sets are computed on the graph after the write"],
    level_text="Generated graphs and writes (rapid state machine); the expected subject sets come from model reachability, "
               "compared in both directions (nothing missing, nothing leaked) with payload equality.",
    level_note="Trusted: model reachability; ordering of NATS deliveries on one connection.",
    technique="property-based testing (rapid state machine) against a reachability model of the graph",
    design_ref="DESIGN.md section 4, C06",
)

CHECKS["C10"] = dict(
    pkg="c10", level="exploration",
    props=[dict(name="TestPropRoundTrip", quick=48000, thorough=16 * 150000, shards_quick=8, shards_thorough=16, timeout_thorough=7200),
           dict(name="TestPropDiffMerge", quick=48000, thorough=16 * 150000, shards_quick=8, shards_thorough=16, timeout_thorough=7200)],
    rule="values of a harness struct with every supported field kind (all int/uint widths, float32/64, bool, string, "
         "pointers to scalars, *struct and struct (flat), eight slice kinds, arrays, four string-keyed map kinds, edge "
         "scalars/slice/pointer, id/parent, child list on decode): integers over the kind's range within +-(2^53-1), floats "
         "from bit patterns (no NaN), slices of 0-12 and (for one field in about 5% of values) 13-1000 elements, nil/empty/"
         "non-empty maps and pointers. Round trip: Decode(shuffle(Encode(v))) equals v modulo nil-vs-empty. Diff/merge: a "
         "chain of 1-3 steps, each Merge(DiffPoints(prev,next)) into the running value must give next; next is a neighbour "
         "of prev (slice shrink/grow/zeroed element, map entry removed/added, pointer nil-ness flipped, fields redrawn) or "
         "independent. Non-trivial: round trip = a nil pointer plus a non-empty slice or map plus children; diff = the pair "
         "differs in a slice length, a map key set or the nil-ness of a pointer.",
    assumptions=["NaN is not comparable and not generated", "map key \"\" is key \"0\" by the documented identity rule and is excluded",
                 "DiffPoints covers node points only, so pairs agree on id, parent and edge fields",
                 "slices of pointers are not among the documented kinds",
                 "chains: the value obtained by an earlier merge is used as 'the decoded first value' of the next step "
                 "(that is how clients use MergePoints); the comparison is on observable values only"],
    level_text="Generated values and before/after pairs (rapid) against the round-trip and diff/merge relations; pure functions, "
               "so hundreds of thousands of cases per run.",
    level_note="Trusted: reflect.DeepEqual modulo nil-vs-empty as the equality; the harness struct family as representative of "
               "'supported configuration types'.",
    technique="property-based testing (rapid): round-trip and diff/merge relations over generated typed values",
    design_ref="DESIGN.md section 4, C10",
)

CHECKS["C11"] = dict(
    pkg="c11", level="exploration",
    props=[dict(name="TestPropNoPanic", quick=120000, thorough=16 * 500000, shards_quick=8, shards_thorough=16, timeout_thorough=7200)],
    fuzz=[dict(name="FuzzDecode", seconds=240)],
    rule="prior value (zero value or a generated value of the struct with every supported kind, with children) x up to ~20 "
         "node points and ~20 edge points whose types are biased to the declared ones (often two points of one type), keys "
         "from a hostile list (\"\", negative, signed, zero-padded, exponent, 999/1000/1001, > 2^64, non-numeric, blanks, "
         "non-ASCII digits) or random, values from hostile constants (NaN, +-Inf, +-1e300, kind limits +-1, negatives for "
         "unsigned) or random bits, tombstone counts including negative and huge; fed to Decode (with child nodes), "
         "MergePoints (also addressed to a child), MergeEdgePoints. Oracle: no panic; adding points of undeclared types at "
         "drawn positions changes neither the result nor whether an error is returned. Non-trivial = the list has a live and "
         "a tombstoned point of one declared type, or a hostile key on a declared type.",
    assumptions=["a returned error is a legal outcome; only panics and the undeclared-type relation are judged"],
    level_text="Generated hostile point lists (rapid) plus a coverage-guided native fuzz target over the same entry points in the "
               "thorough tier; the oracle is totality plus a metamorphic relation.",
    level_note="Trusted: recover() observing every panic of the decoding call (the decoders start no goroutines).",
    technique="property-based testing (rapid) + native go fuzzing; totality and metamorphic oracle",
    design_ref="DESIGN.md section 4, C11",
)

CHECKS["C12"] = dict(
    pkg="c12", level="exploration",
    props=[dict(name="TestPropRoundTrip", quick=60000, thorough=16 * 400000, shards_quick=6, shards_thorough=16, timeout_thorough=7200),
           dict(name="TestPropTotality", quick=160000, thorough=16 * 1000000, shards_quick=8, shards_thorough=16, timeout_thorough=7200)],
    fuzz=[dict(name="FuzzDecoders", seconds=300)],
    rule="round trips: generated points (times over years 1..9999 with nanoseconds and drawn zones, value bit patterns "
         "incl. NaN payloads, arbitrary UTF-8 type/key/text/origin, binary data, int32 tombstones) and nodes (id, type, "
         "parent, uint32 hash, both point lists) through Points.ToPb/PbDecodePoints, NodeEdge.ToPb/PbDecodeNode, "
         "Nodes.ToPb/PbDecodeNodes and hand-marshalled node/nodes replies through PbDecodeNodeRequest/PbDecodeNodesRequest, "
         "every field compared (value by Float64bits, time to the nanosecond). Totality: raw random bytes or valid "
         "encodings damaged by 0-3 mutations (truncate, overwrite, insert, huge varint, duplicate chunk) x arbitrary "
         "subjects, fed to all twelve decoders (points, node, nodes, both replies, serial points, high-rate payload, serial "
         "packet, four subject parsers): value or error, never a panic. Non-trivial: round trip = a point with data and a "
         "non-UTC or sub-microsecond time; totality = at least one decoder accepted the bytes.",
    assumptions=["strings are valid UTF-8 (protobuf rejects anything else at marshalling time)",
                 "reply messages are marshalled by the harness with protowire because internal/pb cannot be imported"],
    level_text="Generated values and damaged encodings (rapid) plus a coverage-guided native fuzz target (thorough) over all "
               "decoders; round-trip oracle with field-by-field equality, totality oracle with recover().",
    level_note="Trusted: protowire hand-marshalling of the two reply messages matches internal/pb/node.proto (checked by the "
               "round trip itself).",
    technique="property-based testing (rapid) + native go fuzzing; round-trip and totality oracles",
    design_ref="DESIGN.md section 4, C12",
)

CHECKS["C17"] = dict(
    pkg="c17", level="fault_enumeration",
    props=[dict(name="TestPropRoundTrip", quick=60000, thorough=16 * 300000, shards_quick=4, shards_thorough=16, timeout_thorough=7200),
           dict(name="TestPropCorruptionDetected", quick=480, thorough=16 * 3000, shards_quick=12, shards_thorough=16, timeout_thorough=7200),
           dict(name="TestEnumHeaderOnly", rapid=False, quick=1, thorough=1, shards_quick=7, shards_thorough=7, timeout_thorough=7200)],
    rule="round trip: any sequence number x documented subject forms (blank, p.<id>, p.<id>.<parent>, phr, ack, exactly 16 "
         "bytes) or arbitrary NUL-free subjects <= 16 bytes x 0-8 points (float32-representable or arbitrary values, any "
         "int64-ns time, int32 tombstones, data); SerialDecode+PbDecodeSerialPoints must give everything back (value as "
         "float32). Corruption: per generated packet on a documented subject every single-bit error, all (<= 22 bytes) or "
         "2000 sampled two-bit errors, and bursts of length 3..16 at every start position with both end bits flipped and "
         "all (<= 22 bytes) or 8 sampled interior patterns; plus complete enumeration of header-only packets (7 subjects x "
         "sequence numbers). Bit order = least significant bit first (UART order, the order the reflected CRC processes). "
         "Oracle: SerialDecode errors, or returns identical seq/subject/payload; anything else is a violation. Non-trivial: "
         ">= 2 points (round trip: and a subject of >= 15 bytes). Evaluations count error patterns; distinct counts packets.",
    assumptions=["subjects contain no NUL (padding is NUL)", "bursts are contiguous in LSB-first bit order",
                 "error patterns whose result decodes as a log packet are excluded and counted (known finding C17-F1)"],
    level_text="Fault enumeration: for each generated packet the stated error classes are enumerated completely (short packets, "
               "header-only packets) or sampled at every position (longer packets); generated round trips cover the encoding.",
    level_note="Trusted: the enumeration of error patterns in harness/c17 (single, double, burst with both end bits set).",
    technique="property-based testing (rapid) for packets + exhaustive enumeration of error patterns per packet",
    design_ref="DESIGN.md section 4, C17",
)

CHECKS["C16"] = dict(
    pkg="c16", level="exploration",
    props=[dict(name="TestPropChunking", quick=120000, thorough=16 * 1500000, shards_quick=8, shards_thorough=16, timeout_thorough=7200),
           dict(name="TestPropDamage", quick=120000, thorough=16 * 1500000, shards_quick=8, shards_thorough=16, timeout_thorough=7200)],
    fuzz=[dict(name="FuzzChunking", seconds=240)],
    rule="1-6 frames (1 byte up to the largest payload whose encoding fits the read buffer of 64/300/600/1024 bytes with one "
         "spare byte; zero-rich, zero-free or arbitrary content; lengths biased to 1-3, 253-255, 507-510) written with "
         "CobsWrapper.Write; the resulting stream is cut into device reads: every byte, none/few (several frames per read), "
         "or up to 12 cuts placed within -1..+2 of a delimiter or anywhere; a scripted io.ReadWriteCloser returns exactly "
         "those chunks. Clean oracle: successive Reads return exactly the written frames, in order, each once, no error "
         "before the end of input. Damage (one event: byte set to zero / to another non-zero value, byte deleted, zero or "
         "non-zero byte inserted, at a drawn position, then cut as above): frames that end before the damage come first and "
         "intact, every frame that begins after the first delimiter at or after the damage comes last and intact; anything "
         "in between is allowed. Non-trivial: clean = >= 2 frames, a cut strictly inside a frame and a read holding the end "
         "of one frame and the start of the next; damage = >= 2 frames and >= 1 frame required after the delimiter.",
    assumptions=["zero-length frames are outside the domain (the serial layer never sends one)",
                 "the caller's buffer has maxMessageLength bytes, as in client/serial.go",
                 "one (damage: two) bytes of the buffer are left spare; the exact capacity boundary is not asserted"],
    level_text="Generated frame sequences x segmentations x single damage events (rapid) against the written frames as oracle; a "
               "native fuzz target over (frames, cut bitmap) in the thorough tier.",
    level_note="Trusted: the scripted reader; CobsWrapper.Write as the definition of the stream (its own defect, a lost zero after "
               "254 non-zero bytes, was found by this round trip and repaired).",
    technique="property-based testing (rapid) + native go fuzzing; round trip through Write/Read under generated segmentations and faults",
    design_ref="DESIGN.md section 4, C16",
)

CHECKS["C18"] = dict(
    pkg="c18", level="exploration",
    props=[dict(name="TestPropServer", quick=160000, thorough=16 * 1500000, shards_quick=8, shards_thorough=16, timeout_thorough=7200),
           dict(name="TestPropListen", quick=24000, thorough=16 * 250000, shards_quick=8, shards_thorough=16, timeout_thorough=7200)],
    fuzz=[dict(name="FuzzServer", seconds=300)],
    rule="register maps (dense from 0, dense at the top of the address space, sparse runs, dense with one gap, bottom+top; "
         "all-ones / address-derived / salted contents; validators never/even/<1000/always on drawn registers) x 1-12 requests "
         "each: structured (function 1-6, 15, 16 with address and quantity at 0, 1, limit-1, limit, limit+1, 2040, 2041, 0x7fff, "
         "0x8000, 0xffff, top-of-range and random; consistent or inconsistent byte-count field and payload length; truncated "
         "or with surplus bytes) or raw (any function code, any bytes). Oracle: a reference server written from the Modbus "
         "application protocol V1.1b3 over map[uint16]uint16 with coil n = bit n%16 of register n/16 gives the set of "
         "acceptable outcomes (normal response byte for byte, or the exception codes whose conditions hold, or no response "
         "only when the data is shorter than the fixed header); no panic; the register file afterwards equals the model "
         "(after a refused read or single write: unchanged; after a refused multi-write only addressed registers may "
         "differ). Non-trivial = quantity at a protocol limit, or a multi-element request that runs into an absent address. "
         "TestPropListen (frame level): the same maps x unit id 1-247 x RTU or TCP framing x 1-8 frames through Server.Listen on a "
         "packet pipe: requests as above framed by the harness (own CRC-16 / MBAP code), the largest legal writes (FC16 with "
         "119-123 registers, FC15 with 1930-1968 coils: ADUs up to the 256/260-byte maximum), frames for another unit, RTU frames "
         "with one bit flipped, RTU frames of 2-3 bytes with a right check sum (FF FF), TCP frames shorter than a header, short "
         "noise. Oracle (differential): Listen writes exactly the framing of what a direct ProcessRequest on an equal register "
         "file returns (transaction id echoed), nothing for a frame that is not a request for its unit, a probe request after "
         "every frame is answered (no panic, no hang, no surplus packet), and both register files stay equal. Non-trivial there = "
         "a frame that is not a plain request, or one of 250 bytes or more.",
    assumptions=["where two exception conditions hold at once either code is accepted",
                 "an inconsistent byte-count field in FC15/16 may be answered with 03 or processed",
                 "FC15 onto a register with a validator: either outcome (the validator sees intermediate values)",
                 "requests with surplus bytes may be refused with 03 or processed on their defined prefix",
                 "frame level: a TCP ADU of exactly 8 bytes (function code without data) and MBAP headers with a wrong protocol id or "
                 "length field are not generated: what is due for them is not settled by the statement; unit id 0 (broadcast) is not generated",
                 "frame level: no reply within 120 s to a pending well-formed request counts as a hang (the work is in-memory, microseconds)"],
    level_text="Generated register maps and requests (rapid) plus a coverage-guided native fuzz target, differential against a "
               "reference implementation of the specification's request state diagrams.",
    level_note="Trusted: the reference server in harness/c18 (written from the specification, independent of modbus/pdu.go).",
    technique="property-based testing (rapid) + native go fuzzing; differential against a reference model of the Modbus specification",
    design_ref="DESIGN.md section 4, C18",
)

CHECKS["C19"] = dict(
    pkg="c19", level="exploration",
    props=[dict(name="TestPropEndToEnd", quick=40000, thorough=16 * 300000, shards_quick=8, shards_thorough=16, timeout_thorough=7200),
           dict(name="TestPropDamagedFrames", quick=20000, thorough=16 * 200000, shards_quick=4, shards_thorough=16, timeout_thorough=7200),
           dict(name="TestPropConversions", quick=100000, thorough=16 * 1000000, shards_quick=2, shards_thorough=16, timeout_thorough=7200),
           dict(name="TestEnumTCPTransactionIDs", rapid=False, quick=1, thorough=1)],
    rule="a modbus.Server and a modbus.Client joined by an in-memory packet duplex (implements net.Conn), over NewRTU and "
         "NewTCP framing, unit ids 0/1/2/17/127/128/247/255, 400 registers (0..259 and the top 140 of the address space) with "
         "drawn contents; 1-8 transactions per case over all six client methods, counts 1..2000 bits / 1..125 registers "
         "biased to 7/8/9/12/15/16/17, 96-99, 124/125, 1592/1593, 1999/2000, aligned and unaligned addresses; written values "
         "read back through the client and directly from the register file. Oracle: values and their NUMBER equal the model. "
         "Damage on one reply: RTU bit flip / truncation / dropped CRC byte, TCP wrong transaction id / truncation below the "
         "header / truncated payload -> the client must return an error and no values, and the next transaction must work. "
         "Conversions: uint32/int32/float32 (bit patterns incl. NaN payloads) through XToRegs/RegsToX in both word orders are "
         "exact inverses, swapped = word-swapped normal, high word first. Plus 70000 consecutive TCP transactions on one "
         "connection (transaction id wraps). Non-trivial: bit count > 8 and not a multiple of 8, or > 97 registers (reply "
         "longer than 200 bytes); every damage case except 'reply from another unit'.",
    assumptions=["each Write is delivered as one packet (the transports require whole packets per Read)",
                 "TCP framing carries no checksum: only transaction id and length are judged there"],
    level_text="Generated transactions and single-fault injection on replies (rapid) over both framings against a map model of the "
               "register file; conversions checked as round-trip and metamorphic (word swap) relations.",
    level_note="Trusted: the in-memory duplex transport in harness/c19; server and client are the real ones.",
    technique="property-based testing (rapid): model-based end-to-end comparison, fault injection on frames, round-trip relations",
    design_ref="DESIGN.md section 4, C19",
)

CHECKS["C09"] = dict(
    pkg="c09", level="exploration",
    props=[dict(name="TestPropHTTPAuth", quick=240, thorough=16 * 1500, shards_quick=12, shards_thorough=16, timeout_quick=900, timeout_thorough=7200),
           dict(name="TestPropLogin", quick=180, thorough=16 * 1200, shards_quick=12, shards_thorough=16, timeout_quick=900, timeout_thorough=7200),
           dict(name="TestPropBusToken", quick=48, thorough=16 * 200, shards_quick=4, shards_thorough=16),
           dict(name="TestEnumTokenExpiresWhileInUse", rapid=False, quick=1, thorough=1),
           dict(name="TestEnumBusTokenRealServer", rapid=False, quick=1, thorough=1)],
    rule="HTTP: api.NewAppHandler (JwtAuth = the store's authorizer, AuthToken set) driven in-process with httptest; per case "
         "5-40 requests: method (standard + junk) x path grammar over /v1/nodes[/<id>[/points|samples|parents|not|junk]] "
         "with path tricks and non-node routes x JSON or junk bodies x 19 credential classes (none, the auth token, mangled "
         "auth token, Bearer + auth token, minted valid HS256 token, token issued by NewToken, wrong key, HS384/HS512 with "
         "the right key, alg none, expired, truncated, one character changed, empty, garbage, Basic, ...; the signing key is "
         "read from the store file so that expired and other-algorithm tokens are minted by the harness). A second bus "
         "connection subscribed to > records store-bound subjects. Oracle: unauthorised => no store-bound bus message and, on "
         "node routes, status 401; authorised => never 401. Login: user/group placements generated by graph operations "
         "(placed, mirrored, moved, deleted, re-added, under deleted groups); after every step UserCheck and POST /v1/auth "
         "issue a token exactly for matching credentials of a user connected to the root through live edges (model "
         "reachability), wrong password / e-mail never; GET /v1/nodes with the issued token lists only nodes inside the live "
         "subtrees of the parents of the user's live placements, and those parents. Bus: a TCP instance with a drawn token "
         "refuses connections without / with another token and accepts the right one; the same on whole instances started through "
         "server.NewServer (the code that configures the embedded bus), plain and with a TLS certificate made for the test. A short-lived token is used while valid and must be refused after it expired. Non-trivial: HTTP = a structurally "
         "valid but unauthorised JWT on a mutating method; login = a user with >= 2 placements of which >= 1 is deleted.",
    assumptions=["forms the statement does not decide (lowercase scheme, surplus blanks, a changed last base64 character) are observed, not judged",
                 "the auth token is non-empty (the property is conditional on an instance configured with one)"],
    level_text="Generated requests and credentials (rapid) against a credential oracle, with bus-traffic observation for the no-read-or-"
               "write clause; generated user placement histories against model reachability for login and listing.",
    level_note="Trusted: golang-jwt for minting test tokens; ordering of NATS deliveries after Flush on both connections.",
    technique="property-based testing (rapid): oracle-classified credentials, bus-traffic observation, model reachability for login",
    design_ref="DESIGN.md section 4, C09",
)

CHECKS["C13"] = dict(
    pkg="c13", level="exploration",
    props=[dict(name="TestPropRule", quick=1200, thorough=16 * 6000, shards_quick=12, shards_thorough=16, timeout_quick=900, timeout_thorough=7200)],
    rule="client.NewRuleClient run against a bare embedded NATS server (no store): rule with 0-4 conditions (point-value: "
         "node/type/key filters each present or blank, number > < = !=, on/off, text = != contains with drawn thresholds; "
         "schedule: start/end minutes, weekday subset or dates near the reference week), 0-3 set-value actions and 0-3 "
         "inactive actions, drawn initial active flags; then 3-25 batches of 1-3 points published on up.<parent>.<node> from "
         "matching and non-matching nodes, including trigger points with drawn times, plus a batch under another parent. "
         "Oracle: a reference interpreter written from the property statement and docs/user/rules.md (latest matching point "
         "per condition; rule = AND, empty = active; on each rule state change the list for the new state runs once in order "
         "- set-value point with the rule as origin, then the action marked active - and the opposite list is marked "
         "inactive; schedule via the C14 reference) predicts every write; condition, rule and target writes are compared per "
         "written node as an exact sequence (type, value, text, origin), action marks as a multiset; the order between "
         "different nodes is not prescribed. Non-trivial = >= 2 conditions of "
         "different kinds and >= 2 rule state changes.",
    assumptions=["generated configurations are valid (documented value types and operators, parsable schedules); error reporting points are not part of the statement",
                 "set-value targets differ from the rule node", "a missing write is reported after 5 s; the rule's 10 s schedule ticker does not fire within a case"],
    level_text="Generated rule configurations and point histories (rapid) against a reference interpreter; nothing echoes the rule's "
               "writes back, so the predicted write sequence is deterministic.",
    level_note="Trusted: the reference interpreter in harness/c13 and the schedule reference shared with C14; NATS ordering on one publishing connection.",
    technique="property-based testing (rapid): differential against a reference interpreter of the rule semantics",
    design_ref="DESIGN.md section 4, C13",
)

CHECKS["C15"] = dict(
    pkg="c15", level="exploration",
    props=[dict(name="TestPropExportImport", quick=360, thorough=16 * 1500, shards_quick=12, shards_thorough=16, timeout_quick=900, timeout_thorough=7200)],
    rule="trees of depth <= 4 and fan-out <= 3 built on a real instance (node types from the built-in list, a unique marker "
         "point per node, optional description, 0-4 points with YAML-significant / random / plain texts, values from a list "
         "of awkward floats or random bits, keys \"\"/\"0\"/indices/map-like, tombstones 0-3, 0-2 edge points, node-id points "
         "referring to nodes of the tree or outside it, deleted children, an occasional mirror inside the tree), exported with "
         "client.ExportNodes and imported with client.ImportNodes under another node, under the root node or on a second "
         "instance, with or without id preservation. Oracle: original and imported subtrees are walked in parallel (children "
         "matched by marker): same live shape and types, same (type, key or \"0\", value, text, tombstone) per node, same edge "
         "points modulo tombstone=0/nodeType, ids identical (preserve) or a bijection onto fresh ids applied consistently to "
         "node-id references, only the top description gains \" (import)\", deleted nodes absent from the YAML. Non-trivial = "
         ">= 3 levels, >= 1 cross reference and >= 1 YAML-significant text.",
    assumptions=["scalars the YAML library alone does not round-trip are redirected and counted (known findings C15-F1, C15-F2)",
                 "importing at the literal parent \"root\" (root replacement) is generated on a second instance only",
                 "a nats: timeout of the helpers' hard-coded 1 s request timeout makes a case inconclusive (counted)"],
    level_text="Generated trees and import targets (rapid) against a structural comparison of the original and imported subtrees on real "
               "instances.",
    level_note="Trusted: the marker-based matching of children; the library self-check used only to delimit the two known findings.",
    technique="property-based testing (rapid): round trip through ExportNodes/ImportNodes with structural tree comparison",
    design_ref="DESIGN.md section 4, C15",
)

CHECKS["C08"] = dict(
    pkg="c08", level="exploration",
    props=[dict(name="TestPropToldOfForeignChanges", quick=480, thorough=16 * 8000, shards_quick=12, shards_thorough=16, timeout_quick=900, timeout_thorough=7200),
           dict(name="TestEnumBurstWhileClientBusy", rapid=False, quick=1, thorough=1)],
    rule="a real instance plus client.NewManager for a harness-defined node type Probe (description, value, string slice, map, "
         "edge fields, child list probeKid) whose instrumented client records every Points/EdgePoints callback; tree: P "
         "under the root with two probeKid children, a grandchild, and an unrelated sibling; in a third of the cases P is "
         "also mirrored under a group, so two clients run and both logs are checked. After P runs (warm-up handshake) "
         "10-40 batches are written with acknowledgement, each with one origin from {\"\", P, a child, the sibling, a user} "
         "to a target from {P, children, grandchild, sibling, root} (node points of declared and undeclared types, keys into "
         "the slice/map) or non-structural edge points on five edges, timestamps increasing; a final foreign batch is the "
         "barrier. Oracle: the callbacks must equal, in order, the accepted batches with target in P's subtree, minus the "
         "ones P authored (empty origin on P itself, or origin P); foreign edge-point batches must be passed through, "
         "self-authored ones may or may not be; nothing else may be delivered; no restart. Then folding the deliveries and P's "
         "own writes into the configuration P was started with (MergePoints/MergeEdgePoints) must equal Decode of what the "
         "store returns for P and its children. Non-trivial = the history has a batch outside the subtree, an own write, a "
         "foreign node-point batch and a foreign edge-point batch.",
    assumptions=["each batch carries one origin (one author)", "no tombstoned points (deletions across separate merges are documented as lossy)",
                 "structural edge points (tombstone, nodeType) belong to C07", "the history starts after the manager's subscription is in place"],
    level_text="Generated write histories (rapid) against a filter model of the delivery log plus a fold-equals-store metamorphic check, "
               "through the public client.NewManager.",
    level_note="Trusted: NATS ordering per subscription; the barrier batch as quiescence signal.",
    technique="property-based testing (rapid): model of the expected callback sequence + fold/Decode agreement",
    design_ref="DESIGN.md section 4, C08",
)

CHECKS["C07"] = dict(
    pkg="c07", level="exploration",
    props=[dict(name="TestPropOneClientPerNode", quick=240, thorough=16 * 600, shards_quick=12, shards_thorough=16, shrinktime="60s",
                timeout_quick=1500, timeout_thorough=10800)],
    rule="a real instance plus client.NewManager for a harness-defined node type Probe (child list probeKid) with parent type "
         "probeHost; the instrumented client logs constructor, Run entry, Stop and Run return (Run returns a drawn 0-100 ms "
         "after Stop). History of 4-14 steps without waiting between them (drawn 0-60 ms pauses): new probe under the root, a "
         "group, a nested group, a probeHost or a variable (must get no client); new containers; mirror a probe under a "
         "second parent; delete / undelete any edge (probe, ancestor group, child); add / remove a probeKid child; point "
         "update. At a drawn checkpoint and at the end the harness triggers the manager's own scan (a nodeType point on "
         "up.root.*, what any node creation does, re-sent every second) and waits, bounded by 20 s, until the log has been "
         "quiet for 300 ms. Oracle: set of placements with a Run in progress == model set (one per live (parent,id) placement "
         "reachable from the root through live group/probeHost nodes); the latest constructed config of each has the node's "
         "current live children and the right id/parent; at no time two Runs of one placement overlap; after Manager.Stop, "
         "Run returns within 12 s and no client Run is left. Non-trivial = an ancestor deletion/undeletion changed the set, "
         "or a child was added/removed while >= 2 clients ran.",
    assumptions=["interleavings are sampled (drawn pauses and return delays), not enumerated",
                 "restarts the model does not require are allowed; only the set at quiescence and the absence of overlap are judged",
                 "the manager's start-up window (a point written between its snapshot read and its subscription) is not decided"],
    level_text="Generated node histories (rapid) against a reachability model of the placements that must have a client, observed through "
               "an instrumented client registered with the public client.NewManager; exploration with sampled schedules.",
    level_note="Trusted: the model's reading of scanHelper's domain (root, groups, configured parent types); the quiescence rule.",
    technique="property-based testing (rapid): stateful history generation with an invariant at quiescence and a continuous no-overlap monitor",
    design_ref="DESIGN.md section 4, C07",
)

CHECKS["C02"] = dict(
    pkg="c02", level="exploration",
    props=[dict(name="TestPropConverge", quick=96, thorough=16 * 200, shards_quick=12, shards_thorough=16, shrinktime="120s",
                timeout_quick=1800, timeout_thorough=10800)],
    rule="two real instances on loopback TCP (upstream 'cloud', downstream 'dev1'); on the downstream client.NewManager runs "
         "client.NewSyncClient for a sync node with period 1 s. After the initial catch-up a history of 6-20 steps is issued on "
         "either side against nodes visible there: node-point and edge-point writes, node creation (points then edge), "
         "tombstone and undelete of edges, link down / up (the sync node's disabled point), one upstream restart (store and "
         "bus stopped and started again on the same port and file), with drawn 0-150 ms delays; all harness writes carry "
         "strictly increasing wall-clock-based timestamps. Then the link is brought up and the harness polls, bounded by 25 s, "
         "until two consecutive dumps of the device subtree (deleted nodes included, walked with nodes.* on both sides) are "
         "identical. Oracle: same node set and types; for every node and edge the same newest point per identity (origin "
         "excepted; the device node's own edge points excepted, documented as unsynchronised); each identity the harness wrote "
         "holds exactly the newest acknowledged write of either side (tombstones: at least as new). Non-trivial = an outage "
         "during which both sides were written.",
    assumptions=["message timings are the scheduler's, perturbed only by the drawn delays", "convergence is demanded within 25 s (period 1 s, reconnect back-off 1-2 s)",
                 "timestamps are distinct per identity"],
    level_text="Generated two-sided histories with link faults (rapid) on two real instances joined by the real sync client; the oracle is "
               "dump equality plus a newest-write model. Schedules are sampled, not enumerated.",
    level_note="Trusted: wall-clock ordering between the harness's timestamps and the sync client's own time.Now() stamps on one machine.",
    technique="property-based testing (rapid): stateful two-instance history with fault injection, convergence + newest-write oracle",
    design_ref="DESIGN.md section 4, C02",
)

CHECKS["C04"] = dict(
    pkg="c04", level="fault_enumeration",
    build_cmds=[dict(pkg="./cmd/crashsup", out="crashsup"), dict(pkg="./cmd/crashwriter", out="crashwriter")],
    props=[dict(name="TestPropCrashAnywhere", quick=24, thorough=128, shards_quick=12, shards_thorough=16, shrinktime="60s",
                timeout_quick=1800, timeout_thorough=14400)],
    rule="a child process (cmd/crashwriter) opens a store on a fresh file and replays a rapid-drawn history of 5-25 acknowledged "
         "batches (node creation edge-first or points-first, node-point batches of 1-5 points, edge-point batches with "
         "tombstone flips, a mirror), printing READY <root> <token> and ACK <i>; it runs under a ptrace supervisor "
         "(cmd/crashsup) that counts, over all threads, the entries into I/O system calls (write/pwrite/writev to files, fsync, "
         "fdatasync, ftruncate, fallocate, unlink, rename) and delivers SIGKILL on entry to the N-th. A dry run gives the total "
         "W and where READY and each ACK fall. Quick: per history N in {1, W, READY, READY+1} + 4 drawn during initialisation + "
         "16 drawn during the history; thorough: every N in 1..W for each history. After each kill the file is reopened by a "
         "fresh instance. Oracle: it opens and answers; root id is the configured one and equals the one reported at READY; a "
         "token issued before the kill is accepted and one signed with another key is not; every batch up to the last ACK is "
         "fully visible (newest-wins model) and the next one is visible completely or not at all (edge, type, edge points and "
         "node points together); every stored hash equals the Merkle hash of the content (C03 oracle); a follow-up write "
         "works. Evaluations count kill-and-reopen cycles; non-trivial histories = at least two kills landed strictly inside a "
         "batch.",
    assumptions=["process death only: the page cache survives, so power loss, torn sectors and synchronous=NORMAL durability are not exercised",
                 "instants between two system calls are represented by the kill on entry to the next one",
                 "ptrace must be permitted (it is in this sandbox)"],
    level_text="Fault enumeration over crash points: every prefix of the I/O a history performs (thorough) or a sample of prefixes (quick), "
               "over generated histories (rapid), with recovery checked against the newest-wins and Merkle models.",
    level_note="Trusted: the ptrace supervisor's global count of I/O system calls; the child reports an ACK only after the store's reply.",
    technique="property-based testing (rapid) for histories x enumeration of crash points with a ptrace fault injector",
    design_ref="DESIGN.md section 4, C04",
)

CHECKS["C20"] = dict(
    pkg="c20", level="exploration", race=True,
    props=[dict(name="TestPropConcurrent", quick=72, thorough=16 * 150, shards_quick=12, shards_thorough=16, shrinktime="10s",
                timeout_quick=1800, timeout_thorough=14400),
           dict(name="TestEnumServerStop", rapid=False, quick=1, thorough=1)],
    rule="the whole harness and every simpleiot package are compiled with -race. Per case 4-10 workers, each with its own bus "
         "connection and a drawn program of 20-60 operations: node-point and edge-point writes to three shared nodes (one "
         "mirrored) with globally distinct generated timestamps, reads, admin.storeVerify, admin.storeMaint, logins "
         "(auth.user), node creation, drawn Gosched / "
         "microsecond pauses; in the rootChurn class (about 25%) one worker keeps inserting a new root (the import-at-root "
         "path) while the others mostly read nodes.root.all; GOMAXPROCS drawn from {1,2,4,8,16}; in about 25% of the cases "
         "Store.Stop is called in the middle of the load. Oracle: every request is answered while the store runs (20 s); a "
         "valid request is never refused; per worker a read after its own acknowledged write shows a time >= that write and "
         "successive reads never go back in time; after the load the dump equals the newest-wins model of the acknowledged "
         "writes (writes that were sent but not acknowledged because of the stop may or may not be there) and every stored "
         "hash equals the Merkle hash of the content; Run returns after Stop; the same file opens again and holds the same "
         "content; the race detector reports nothing (GORACE halt_on_error exits the binary with code 66; its report is the "
         "replay artefact). In addition the whole server (server.NewServer: bus, store, HTTP API, node manager, default "
         "clients) is started on free ports, written and read by four workers and stopped in the middle: Server.Run must "
         "return, the file must open again and hold every acknowledged write. Non-trivial = >= 4 workers and >= 2 identities "
         "written by >= 2 workers.",
    assumptions=["interleavings are whatever the Go scheduler produces under the drawn perturbations; a failure of this check is not shrinkable",
                 "requests in flight when Stop is called may be answered with an error or dropped"],
    level_text="Generated concurrent workloads (rapid) under the race detector with per-worker and global consistency oracles; schedules "
               "are sampled.",
    level_note="Trusted: the Go race detector; the newest-wins and Merkle models.",
    technique="property-based testing (rapid) of concurrent programs under the Go race detector",
    design_ref="DESIGN.md section 4, C20",
)

# Generators widened after the seeded-change rounds 3-5 (DESIGN.md 9c-9e); appended to the rule texts so that
# the evidence files describe what is generated now.
_WIDENED = {
    "C01": "a quarter of the identities repeat one reading (points that differ in nothing but their time).",
    "C02": "histories also mirror a leaf under a second parent inside the device tree; the convergence wait extends while the "
           "difference keeps changing (25 s without change, 150 s at most); once a node has two placements nothing is written to "
           "it or below it (known finding C02-F1; the skipped writes are counted under excluded_by_known_finding).",
    "C04": "one node-point batch in six has 33-150 points (all of it or none of it after a crash).",
    "C07": "a child is added (or one removed and another added) from inside the client constructor, i.e. between the manager's "
           "read of the children and its subscription; child changes are written with the managed node's own id as origin half "
           "of the time.",
    "C08": "the clock base is drawn (2017, now, 2027); some batches carry exactly the time of the batch before; a node first "
           "placed outside the subtree and then mirrored into it; batches with a NaN (refused: nobody is told); blank map keys; "
           "TestEnumBurstWhileClientBusy: 700 and 1500 batches accepted while the client sits in a callback.",
    "C09": "earlier tokens list again after every step (also after the user was deleted); one stored e-mail has capitals; "
           "TestEnumBusTokenRealServer runs whole instances.",
    "C10": "the flat struct has untagged fields with initialisms and pointer fields; child ids are in no particular order.",
    "C11": "decimal keys around every power of two up to 2^65 and random 64-bit numbers; a second target type with unexported "
           "(unsettable) fields at the top level and in nested structs.",
    "C12": "point types the system gives a meaning to and names of wire fields; data.Message and data.Notification.",
    "C13": "one action in six lacks its target or point type (the rest of the list must still run; error points are not "
           "compared); values a hair from the threshold and fractional thresholds; point origins drawn, the rule's own id "
           "included; dates combined with an all-false weekday array; the process runs in a local zone of UTC+13.",
    "C15": "targets also: preserved ids under a parent with another id or under the root of a second instance, restore over "
           "the deleted original, restore over a changed original, whole instance imported onto itself at root; keys 00, -0, "
           "+0, 0.0, 0x0; generated times lie in the past.",
    "C16": "undamaged streams: frames that fill the read buffer exactly, idle delimiter runs (ending at a read boundary), empty "
           "(0, nil) device reads, the caller overwrites its buffer after every read; damage: runs of 1-3 overwritten or inserted "
           "bytes, 1-8 lost bytes, noise of up to buffer+10 bytes, frames leave five spare bytes there.",
    "C19": "every conversion must leave its argument unchanged.",
    "C20": "requests that must be refused (delete root, self parent, cycle, NaN) are part of the load; a third of the cases send "
           "a burst of 300/600 reads or 120 writes without waiting; every request waits progress-based (unanswered = the store "
           "answered nobody for a whole time-out); a publisher that does not wait goes on while the store stops; "
           "TestEnumServerStop has a flood publisher and one round with more than ten seconds of uptime.",
}
for _id, _txt in _WIDENED.items():
    CHECKS[_id]["rule"] = CHECKS[_id]["rule"].rstrip() + " Widened later: " + _txt

# widenings of the sixth seeding round (DESIGN.md section 9f), appended to the rule texts
_R6 = {
    "C03": "Tombstone writes carry a count one time in three (3, 5 = deleted; 2, 4 = restored); one id of the pool contains a single quote.",
    "C05": "Tombstone writes carry a count one time in three (3, 5 = deleted; 2, 4 = restored); one id of the pool contains a single quote "
           "(regress TestRegressQuoteInIDs: nodes and children with a quote in id or parent are read back; a quote in a request does not widen the answer).",
    "C06": "Tombstone writes carry a count one time in three (3, 5 = deleted; 2, 4 = restored); one id of the pool contains a single quote.",
    "C08": "List points are written densely and shrunk from the tail by 1-3 tombstoned points of one batch in any key order (the shape "
           "DiffPoints produces; decode.go does not claim complete trimming for deletions spread over several merges); map entries are "
           "tombstoned one time in four.",
    "C10": "One Diff/Merge step in five uses an 'after' that is 'before' with node-point slices cut by re-slicing (shared backing arrays).",
    "C11": "The prior value's child slice also comes with 1-3 elements of spare capacity holding stale children.",
    "C12": "Totality seeds include 'log' serial packets (text without check sum, with or without trailing NUL, also empty) and "
           "empty-payload packets of the subjects log, ack, phr, p.abc and a 16-byte subject.",
    "C14": "A quarter of the date-list entries name no calendar day but would roll over onto a nearby one (yyyy-02-29, -04-31, -13-01, -00); "
           "the reference compares texts, so no day matches them.",
    "C15": "One case in six continues one branch as a chain of 6-10 further levels; cross references carry tombstones 0-3.",
}
for _k, _v in _R6.items():
    CHECKS[_k]["rule"] += " Since round 6: " + _v
