"""Per-property configuration of bin/check (single source for MANIFEST.json)."""

CHECKS = {}
NOT_APPLICABLE = []

CHECKS["C14"] = dict(
    pkg="c14", level="exploration",
    props=[
        dict(name="TestPropSchedule", quick=300000, thorough=16 * 3000000, shards_thorough=16, shards_quick=4),
        dict(name="TestEnumSweep", rapid=False, quick=1, thorough=1, shards_quick=8, shards_thorough=16),
    ],
    rule="rapid draws (start,end) minute pairs (biased to equal / adjacent / wrapping), a weekday subset, 0-3 dates "
         "near the instant and an instant biased to +-1 s / +-1 ns around window boundaries of D-1..D+1 and around "
         "week, month, year ends and leap days; oracle = reference in integer Unix seconds with an own civil-date "
         "algorithm, plus invariance under re-expressing the instant in a drawn fixed zone. Non-trivial = end<=start, "
         "instant after midnight within yesterday's window span, and the filters allow exactly one of D-1 and D.",
    assumptions=["start/end are rendered H:MM or HH:MM from 0..1439 minutes (the documented form)",
                 "dates are rendered YYYY-MM-DD; instants lie in years 1915-2134",
                 "schedule.activeForTime is reached through a build-time overlay shim in package client"],
    level_text="Generated search (rapid) over schedule x instant against an independent integer-seconds reference, plus "
               "complete enumeration of two finite sub-spaces in the thorough tier; exploration is the right level "
               "because the function is pure and cheap (about 1 us per evaluation), so millions of boundary-biased cases are explored.",
    level_note="Trusted: the reference model in harness/c14 (written from the property statement), Go's time.Unix/In.",
    technique="property-based testing (rapid) against a reference model + exhaustive enumeration of sub-spaces",
    design_ref="DESIGN.md section 4, C14",
)
