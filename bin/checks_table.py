"""Per-property configuration of bin/check (single source for MANIFEST.json)."""

CHECKS = {}
NOT_APPLICABLE = []

CHECKS["C14"] = dict(
    pkg="c14", level="exploration",
    props=[
        dict(name="TestPropSchedule", quick=300000, thorough=16 * 3000000, shards_thorough=16, shards_quick=4),
        dict(name="TestEnumSweep", rapid=False, quick=1, thorough=1, shards_quick=8, shards_thorough=16),
    ],
    rule="rapid draws (start,end) minute pairs (biased to equal / adjacent / wrapping), a weekday subset, 0-3 dates "
         "near the instant and an instant biased to +-1 s / +-1 ns around window boundaries of D-1..D+1 and around "
         "week, month, year ends and leap days; oracle = reference in integer Unix seconds with an own civil-date "
         "algorithm, plus invariance under re-expressing the instant in a drawn fixed zone. Non-trivial = end<=start, "
         "instant after midnight within yesterday's window span, and the filters allow exactly one of D-1 and D.",
    assumptions=["start/end are rendered H:MM or HH:MM from 0..1439 minutes (the documented form)",
                 "dates are rendered YYYY-MM-DD; instants lie in years 1915-2134",
                 "schedule.activeForTime is reached through a build-time overlay shim in package client"],
    level_text="Generated search (rapid) over schedule x instant against an independent integer-seconds reference, plus "
               "complete enumeration of two finite sub-spaces in the thorough tier; exploration is the right level "
               "because the function is pure and cheap (about 1 us per evaluation), so millions of boundary-biased cases are explored.",
    level_note="Trusted: the reference model in harness/c14 (written from the property statement), Go's time.Unix/In.",
    technique="property-based testing (rapid) against a reference model + exhaustive enumeration of sub-spaces",
    design_ref="DESIGN.md section 4, C14",
)

CHECKS["C01"] = dict(
    pkg="c01", level="exploration",
    props=[dict(name="TestPropNewestWins", quick=360, thorough=16 * 2500, shards_quick=12, shards_thorough=16)],
    rule="rapid draws 2-4 targets among three nodes and four edges (one node mirrored under two parents, the root's own "
         "edge), per target 1-10 identities from a colliding alphabet (type+key concatenations that coincide, key \"\"/\"0\" "
         "spellings), per identity 1-5 points with distinct timestamps (dense, +-1 ns, pre-1970, near int64 limits) and "
         "independent random value/text/data/tombstone/origin; two independent deliveries (permutation + up to 8 "
         "re-deliveries, cut into per-target batches of 1-8) go to two fresh instances. Oracle: after every acknowledged "
         "batch the read of the target equals a newest-wins map; both instances end up equal. Non-trivial = a delivery "
         "contains a point older than the one held at that moment AND a batch with >=2 points of one identity.",
    assumptions=["timestamps are distinct per identity and never the zero time (outside the quantifier)",
                 "strings are valid UTF-8 (the wire format rejects anything else); NaN values belong to C05",
                 "values are compared with == (+0 equals -0); bit equality is C12's business",
                 "node-type edge points and tombstones aimed at the root are excluded here (not stored / refused by design, C05)"],
    level_text="Generated histories (rapid) against a newest-wins reference map with a metamorphic second delivery order; each "
               "case runs two real store instances over an in-process NATS server, so the whole write path (decode, Collapse, "
               "SQL upsert, read) is exercised.",
    level_note="Trusted: the reference map in harness/internal/model, the NATS request/reply transport.",
    technique="property-based testing (rapid): model-based comparison after every batch + order-independence metamorphic relation",
    design_ref="DESIGN.md section 4, C01",
)
