package client

import "time"

// VerifScheduleActive exposes schedule.activeForTime to the verification
// harness. This file is not part of the repository: it is added to package
// client at build time with `go test -overlay` (see /verif/DESIGN.md 2.3).
func VerifScheduleActive(start, end string, wd []time.Weekday, dates []string, t time.Time) (bool, error) {
	return newSchedule(start, end, wd, dates).activeForTime(t)
}
