package c12

import (
	"testing"
	"time"

	"github.com/simpleiot/simpleiot/data"
)

// Data is a field of the wire format
func TestRegressDataField(t *testing.T) {
	ps := data.Points{{Type: "a", Time: time.Unix(5, 5), Data: []byte{0, 1, 2}}}
	b, err := ps.ToPb()
	if err != nil {
		t.Fatal(err)
	}
	back, err := data.PbDecodePoints(b)
	if err != nil {
		t.Fatal(err)
	}
	if d := samePoints("points", ps, back); d != "" {
		t.Fatal(d)
	}
}

// a node reply without a node is an error, not a crash
func TestRegressNodeReplyWithoutNode(t *testing.T) {
	for _, b := range [][]byte{nil, {}, nodesRequest(nil, "")} {
		_, p, where, stack := runAll(b, "p.x")
		if p != nil {
			t.Fatalf("%s panicked: %v\n%s", where, p, stack)
		}
	}
}
