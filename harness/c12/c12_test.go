// Package c12 decides property C12: wire encodings are lossless and
// malformed bytes are rejected cleanly (value or error, never a crash).
package c12

import (
	"fmt"
	"math"
	"runtime/debug"
	"testing"
	"time"

	"github.com/nats-io/nats.go"
	"github.com/simpleiot/simpleiot/client"
	"github.com/simpleiot/simpleiot/data"
	"google.golang.org/protobuf/encoding/protowire"
	"pgregory.net/rapid"

	"verif/internal/fix"
	"verif/internal/gen"
	"verif/internal/stats"
)

func TestMain(m *testing.M) { fix.Quiet(); stats.Main(m) }

// wire-representable time range: years 1..9999
const (
	minSec = -62135596800
	maxSec = 253402300799
)

func genTime(t *rapid.T) time.Time {
	var sec int64
	switch rapid.IntRange(0, 5).Draw(t, "tk") {
	case 0:
		sec = rapid.SampledFrom([]int64{minSec, maxSec, 0, -1, 1, 1 << 31, -(1 << 31), 1<<31 - 1}).Draw(t, "tedge")
	case 1:
		sec = rapid.Int64Range(minSec, maxSec).Draw(t, "tsec")
	default:
		sec = 1700000000 + rapid.Int64Range(-1e8, 1e8).Draw(t, "tnear")
	}
	nsec := rapid.SampledFrom([]int64{0, 1, 999, 1000, 123456789, 999999999, 999999000}).Draw(t, "nsec")
	if rapid.Bool().Draw(t, "nsecRandom") {
		nsec = rapid.Int64Range(0, 999999999).Draw(t, "nsecR")
	}
	tm := time.Unix(sec, nsec)
	if rapid.Bool().Draw(t, "zone") {
		tm = tm.In(time.FixedZone("z", rapid.IntRange(-12*3600, 14*3600).Draw(t, "zoff")))
	} else {
		tm = tm.UTC()
	}
	return tm
}

func genValue(t *rapid.T) float64 {
	switch rapid.IntRange(0, 3).Draw(t, "vk") {
	case 0:
		return math.Float64frombits(rapid.SampledFrom([]uint64{0, 1 << 63, 0x7ff8000000000000, 0x7ff8000000000001, 0xfff8000000000000, 0x7ff0000000000001,
			0x7ff0000000000000, 0xfff0000000000000, 1, 0x7fefffffffffffff}).Draw(t, "vspecial"))
	default:
		return math.Float64frombits(rapid.Uint64().Draw(t, "vbits"))
	}
}

// wellKnownTypes: point types that the system itself gives a meaning to, and
// words that name wire fields -- an encoder that treats one of them specially
// loses it.
var wellKnownTypes = []string{data.PointTypeNodeType, data.PointTypeTombstone, data.PointTypeDescription, data.PointTypeValue,
	data.PointTypeNodeID, "id", "parent", "hash", "type", "key", "text", "time", "origin", "data", "points", "edgePoints", "index"}

func genPoint(t *rapid.T) data.Point {
	return data.Point{
		Type:      rapid.OneOf(gen.Type(), gen.Type(), rapid.SampledFrom(wellKnownTypes)).Draw(t, "type"),
		Key:       gen.Key().Draw(t, "key"),
		Time:      genTime(t),
		Value:     genValue(t),
		Text:      gen.Text().Draw(t, "text"),
		Data:      gen.Data().Draw(t, "data"),
		Tombstone: int(rapid.OneOf(rapid.Int32Range(0, 3), rapid.Int32()).Draw(t, "tomb")),
		Origin:    gen.Origin([]string{"n1"}).Draw(t, "origin"),
	}
}

func genPoints(t *rapid.T, label string) data.Points {
	n := rapid.IntRange(0, 6).Draw(t, label)
	var out data.Points
	for i := 0; i < n; i++ {
		out = append(out, genPoint(t))
	}
	return out
}

func genNode(t *rapid.T) data.NodeEdge {
	return data.NodeEdge{
		ID:         rapid.OneOf(rapid.SampledFrom([]string{"", "id1", "a.b"}), rapid.StringN(0, 8, 20)).Draw(t, "id"),
		Type:       rapid.SampledFrom([]string{"", "device", "user", "é"}).Draw(t, "ntype"),
		Parent:     rapid.SampledFrom([]string{"", "root", "p1", "none"}).Draw(t, "parent"),
		Hash:       rapid.OneOf(rapid.SampledFrom([]uint32{0, 1, 1 << 31, math.MaxUint32, 1<<31 - 1}), rapid.Uint32()).Draw(t, "hash"),
		Points:     genPoints(t, "nNodePoints"),
		EdgePoints: genPoints(t, "nEdgePoints"),
	}
}

func samePoint(a, b data.Point) string {
	switch {
	case !a.Time.Equal(b.Time) || a.Time.UnixNano() != b.Time.UnixNano() && a.Time.Year() > 1700 && a.Time.Year() < 2200:
		return fmt.Sprintf("time %v != %v", a.Time.UTC().Format(time.RFC3339Nano), b.Time.UTC().Format(time.RFC3339Nano))
	case a.Type != b.Type:
		return fmt.Sprintf("type %q != %q", a.Type, b.Type)
	case a.Key != b.Key:
		return fmt.Sprintf("key %q != %q", a.Key, b.Key)
	case math.Float64bits(a.Value) != math.Float64bits(b.Value):
		return fmt.Sprintf("value bits %#x != %#x", math.Float64bits(a.Value), math.Float64bits(b.Value))
	case a.Text != b.Text:
		return fmt.Sprintf("text %q != %q", a.Text, b.Text)
	case string(a.Data) != string(b.Data):
		return fmt.Sprintf("data %x != %x", a.Data, b.Data)
	case a.Tombstone != b.Tombstone:
		return fmt.Sprintf("tombstone %d != %d", a.Tombstone, b.Tombstone)
	case a.Origin != b.Origin:
		return fmt.Sprintf("origin %q != %q", a.Origin, b.Origin)
	}
	return ""
}

func samePoints(what string, a, b data.Points) string {
	if len(a) != len(b) {
		return fmt.Sprintf("%s: %d points became %d", what, len(a), len(b))
	}
	for i := range a {
		if d := samePoint(a[i], b[i]); d != "" {
			return fmt.Sprintf("%s[%d]: %s", what, i, d)
		}
	}
	return ""
}

func sameNode(a, b data.NodeEdge) string {
	switch {
	case a.ID != b.ID:
		return fmt.Sprintf("id %q != %q", a.ID, b.ID)
	case a.Type != b.Type:
		return fmt.Sprintf("type %q != %q", a.Type, b.Type)
	case a.Parent != b.Parent:
		return fmt.Sprintf("parent %q != %q", a.Parent, b.Parent)
	case a.Hash != b.Hash:
		return fmt.Sprintf("hash %d != %d", a.Hash, b.Hash)
	}
	if d := samePoints("points", a.Points, b.Points); d != "" {
		return d
	}
	return samePoints("edgePoints", a.EdgePoints, b.EdgePoints)
}

// nodesRequest hand-marshals pb.NodesRequest{nodes=1 (repeated Node), error=2}
func nodesRequest(nodes [][]byte, errText string) []byte {
	var b []byte
	for _, n := range nodes {
		b = protowire.AppendTag(b, 1, protowire.BytesType)
		b = protowire.AppendBytes(b, n)
	}
	if errText != "" {
		b = protowire.AppendTag(b, 2, protowire.BytesType)
		b = protowire.AppendString(b, errText)
	}
	return b
}

func TestPropRoundTrip(t *testing.T) {
	rapid.Check(t, func(t *rapid.T) {
		// points
		ps := genPoints(t, "nPoints")
		b, err := ps.ToPb()
		if err != nil {
			t.Fatalf("Points.ToPb: %v", err)
		}
		back, err := data.PbDecodePoints(b)
		if err != nil {
			t.Fatalf("PbDecodePoints(ToPb(ps)): %v", err)
		}
		if d := samePoints("points", ps, back); d != "" {
			t.Fatalf("points round trip: %s", d)
		}
		// node
		n := genNode(t)
		nb, err := n.ToPb()
		if err != nil {
			t.Fatalf("NodeEdge.ToPb: %v", err)
		}
		nBack, err := data.PbDecodeNode(nb)
		if err != nil {
			t.Fatalf("PbDecodeNode: %v", err)
		}
		if d := sameNode(n, nBack); d != "" {
			t.Fatalf("node round trip: %s", d)
		}
		// node list
		ns := data.Nodes{n, genNode(t)}
		if rapid.Bool().Draw(t, "emptyList") {
			ns = data.Nodes{}
		}
		nsb, err := ns.ToPb()
		if err != nil {
			t.Fatalf("Nodes.ToPb: %v", err)
		}
		nsBack, err := data.PbDecodeNodes(nsb)
		if err != nil || len(nsBack) != len(ns) {
			t.Fatalf("PbDecodeNodes: %v, %d of %d nodes", err, len(nsBack), len(ns))
		}
		for i := range ns {
			if d := sameNode(ns[i], nsBack[i]); d != "" {
				t.Fatalf("nodes[%d] round trip: %s", i, d)
			}
		}
		// replies
		var enc [][]byte
		for i := range ns {
			x, _ := ns[i].ToPb()
			enc = append(enc, x)
		}
		rBack, err := data.PbDecodeNodesRequest(nodesRequest(enc, ""))
		if err != nil || len(rBack) != len(ns) {
			t.Fatalf("PbDecodeNodesRequest: %v, %d of %d nodes", err, len(rBack), len(ns))
		}
		for i := range ns {
			if d := sameNode(ns[i], rBack[i]); d != "" {
				t.Fatalf("nodes reply [%d] round trip: %s", i, d)
			}
		}
		if _, err := data.PbDecodeNodesRequest(nodesRequest(enc, "some error")); err == nil || err.Error() != "some error" {
			t.Fatalf("nodes reply error text lost: %v", err)
		}
		one, err := data.PbDecodeNodeRequest(nodesRequest([][]byte{nb}, ""))
		if err != nil {
			t.Fatalf("PbDecodeNodeRequest: %v", err)
		}
		if d := sameNode(n, one); d != "" {
			t.Fatalf("node reply round trip: %s", d)
		}
		// messages and notifications (the other two payloads that travel as
		// protobuf on the bus)
		m := data.Message{ID: gen.Text().Draw(t, "mID"), UserID: gen.Text().Draw(t, "mUser"), ParentID: gen.Text().Draw(t, "mParent"),
			NotificationID: gen.Text().Draw(t, "mNot"), Email: gen.Text().Draw(t, "mEmail"), Phone: gen.Text().Draw(t, "mPhone"),
			Subject: gen.Text().Draw(t, "mSubject"), Message: gen.Text().Draw(t, "mMessage")}
		mb, err := m.ToPb()
		if err != nil {
			t.Fatalf("Message.ToPb: %v", err)
		}
		if mBack, err := data.PbDecodeMessage(mb); err != nil || mBack != m {
			t.Fatalf("message round trip: %v\n got %+v\nwant %+v", err, mBack, m)
		}
		no := data.Notification{ID: gen.Text().Draw(t, "nID"), Parent: gen.Text().Draw(t, "nParent"), SourceNode: gen.Text().Draw(t, "nSource"),
			Subject: gen.Text().Draw(t, "nSubject"), Message: gen.Text().Draw(t, "nMessage")}
		nob, err := no.ToPb()
		if err != nil {
			t.Fatalf("Notification.ToPb: %v", err)
		}
		if noBack, err := data.PbDecodeNotification(nob); err != nil || noBack != no {
			t.Fatalf("notification round trip: %v\n got %+v\nwant %+v", err, noBack, no)
		}
		nt := false
		for _, p := range append(append(data.Points{}, ps...), n.Points...) {
			_, off := p.Time.Zone()
			if len(p.Data) > 0 && (off != 0 || p.Time.Nanosecond()%1000 != 0) {
				nt = true
			}
		}
		stats.Case(nt, stats.Digest(fmt.Sprintf("%v|%v", ps, n)), "roundtrip")
		if nt && stats.WantSample() {
			stats.Sample(map[string]any{"points": fmt.Sprintf("%+v", ps), "node_id": n.ID, "hash": n.Hash})
		}
	})
}

// ---------------------------------------------------------------------------
// totality

type result struct {
	accepted bool
}

// runAll feeds the bytes to every decoder; a panic is reported, everything
// else is a legal outcome. Returns how many decoders accepted the input.
func runAll(b []byte, subject string) (accepted int, panicked any, where string, stack string) {
	try := func(name string, f func() error) {
		defer func() {
			if r := recover(); r != nil && panicked == nil {
				panicked, where, stack = r, name, string(debug.Stack())
			}
		}()
		if f() == nil {
			accepted++
		}
	}
	try("PbDecodePoints", func() error { _, err := data.PbDecodePoints(b); return err })
	try("PbDecodeNode", func() error { _, err := data.PbDecodeNode(b); return err })
	try("PbDecodeNodes", func() error { _, err := data.PbDecodeNodes(b); return err })
	try("PbDecodeNodeRequest", func() error { _, err := data.PbDecodeNodeRequest(b); return err })
	try("PbDecodeNodesRequest", func() error { _, err := data.PbDecodeNodesRequest(b); return err })
	try("PbDecodeMessage", func() error { _, err := data.PbDecodeMessage(b); return err })
	try("PbDecodeNotification", func() error { _, err := data.PbDecodeNotification(b); return err })
	try("PbDecodeSerialPoints", func() error { _, err := data.PbDecodeSerialPoints(b); return err })
	try("DecodeSerialHrPayload", func() error { return data.DecodeSerialHrPayload(b, func(data.Point) {}) })
	try("SerialDecode", func() error {
		_, _, payload, err := client.SerialDecode(b)
		if err == nil {
			_, _ = data.PbDecodeSerialPoints(payload)
		}
		return err
	})
	msg := &nats.Msg{Subject: subject, Data: b}
	try("DecodeNodePointsMsg", func() error { _, _, err := client.DecodeNodePointsMsg(msg); return err })
	try("DecodeEdgePointsMsg", func() error { _, _, _, err := client.DecodeEdgePointsMsg(msg); return err })
	try("DecodeUpNodePointsMsg", func() error { _, _, _, err := client.DecodeUpNodePointsMsg(msg); return err })
	try("DecodeUpEdgePointsMsg", func() error { _, _, _, _, err := client.DecodeUpEdgePointsMsg(msg); return err })
	return
}

// validEncodings returns encodings of generated values for every decoder.
func validEncodings(t *rapid.T) [][]byte {
	ps := genPoints(t, "nSeedPoints")
	n := genNode(t)
	pb, _ := ps.ToPb()
	nb, _ := n.ToPb()
	ns := data.Nodes{n}
	nsb, _ := ns.ToPb()
	out := [][]byte{pb, nb, nsb, nodesRequest([][]byte{nb}, ""), nodesRequest(nil, "err"), nodesRequest(nil, "")}
	if sb, err := client.SerialEncode(byte(len(ps)), "p.abc", ps); err == nil {
		out = append(out, sb)
		if len(sb) > 19 {
			out = append(out, sb[17:len(sb)-2])
		}
	}
	// serial packets of the other subjects the serial client handles; "log" packets carry text and no check sum,
	// and every subject may come with an empty payload
	subj := rapid.SampledFrom([]string{"log", "log", "ack", "phr", "", "p.abc", "0123456789abcdef"}).Draw(t, "serialSubject")
	if subj == "log" {
		hdr := make([]byte, 17)
		hdr[0] = byte(len(ps))
		copy(hdr[1:], subj)
		txt := rapid.SliceOfN(rapid.SampledFrom([]byte{0, 'a', '\n', 0xff}), 0, 6).Draw(t, "logText")
		out = append(out, append(hdr, txt...))
	} else if sb, err := client.SerialEncode(byte(len(ps)), subj, nil); err == nil {
		out = append(out, sb)
	}
	hr := make([]byte, 48+4*len(ps))
	copy(hr, "temp")
	out = append(out, hr)
	return out
}

func mutate(t *rapid.T, b []byte) []byte {
	b = append([]byte{}, b...)
	for i := rapid.IntRange(0, 3).Draw(t, "nmut"); i > 0; i-- {
		switch rapid.IntRange(0, 4).Draw(t, "mut") {
		case 0: // truncate
			if len(b) > 0 {
				b = b[:rapid.IntRange(0, len(b)-1).Draw(t, "cut")]
			}
		case 1: // overwrite
			if len(b) > 0 {
				b[rapid.IntRange(0, len(b)-1).Draw(t, "pos")] = rapid.Byte().Draw(t, "byte")
			}
		case 2: // insert
			p := rapid.IntRange(0, len(b)).Draw(t, "ipos")
			ins := rapid.SliceOfN(rapid.Byte(), 1, 6).Draw(t, "ins")
			b = append(b[:p], append(ins, b[p:]...)...)
		case 3: // huge varint / length
			p := rapid.IntRange(0, len(b)).Draw(t, "vpos")
			b = append(b[:p], append([]byte{0xff, 0xff, 0xff, 0xff, 0xff, 0xff, 0xff, 0xff, 0xff, 0x01}, b[p:]...)...)
		case 4: // duplicate a chunk
			if len(b) > 1 {
				a := rapid.IntRange(0, len(b)-1).Draw(t, "da")
				z := rapid.IntRange(a, len(b)).Draw(t, "dz")
				b = append(b, b[a:z]...)
			}
		}
	}
	return b
}

var subjects = []string{"", "p", "p.", "p.n1", "p.n1.p1", "up.a.n1", "up.a.n1.p1", "up", "up.", "...", "p..", "nodes.x", "a.b.c.d.e.f"}

func TestPropTotality(t *testing.T) {
	rapid.Check(t, func(t *rapid.T) {
		var b []byte
		if rapid.IntRange(0, 4).Draw(t, "raw") == 0 {
			b = rapid.SliceOfN(rapid.Byte(), 0, 80).Draw(t, "rawBytes")
		} else {
			encs := validEncodings(t)
			b = mutate(t, encs[rapid.IntRange(0, len(encs)-1).Draw(t, "which")])
		}
		subject := rapid.OneOf(rapid.SampledFrom(subjects), rapid.StringN(0, 10, 20)).Draw(t, "subject")
		acc, p, where, stack := runAll(b, subject)
		if p != nil {
			t.Fatalf("%s panicked on %d bytes %x (subject %q): %v\n%s", where, len(b), b, subject, p, stack)
		}
		stats.Case(acc > 0, stats.Digest(fmt.Sprintf("%x|%s", b, subject)), fmt.Sprintf("acceptedBy%d", min(acc, 3)))
		if acc > 0 && stats.WantSample() {
			stats.Sample(map[string]any{"bytes": fmt.Sprintf("%x", b), "subject": subject, "decoders_accepting": acc})
		}
	})
}

func min(a, b int) int {
	if a < b {
		return a
	}
	return b
}

// FuzzDecoders is the coverage-guided variant of TestPropTotality.
func FuzzDecoders(f *testing.F) {
	ps := data.Points{{Type: "value", Key: "0", Time: time.Unix(1700000000, 5), Value: 1.5, Text: "x", Data: []byte{1}, Tombstone: 1, Origin: "o"}}
	n := data.NodeEdge{ID: "n1", Type: "device", Parent: "root", Hash: 77, Points: ps, EdgePoints: ps}
	pb, _ := ps.ToPb()
	nb, _ := n.ToPb()
	ns := data.Nodes{n}
	nsb, _ := ns.ToPb()
	sb, _ := client.SerialEncode(3, "p.abc", ps)
	for _, s := range [][]byte{pb, nb, nsb, nodesRequest([][]byte{nb}, ""), nodesRequest(nil, "e"), nodesRequest(nil, ""), sb, sb[17 : len(sb)-2],
		pb[:len(pb)/2], nb[:len(nb)-3], {0x0a, 0x00}, {0x12, 0x01, 0x41}, {0xff, 0xff, 0xff, 0xff, 0x0f}, make([]byte, 48), make([]byte, 60)} {
		f.Add(s, "p.n1.p1")
	}
	f.Add([]byte{}, "up.a.b.c")
	f.Fuzz(func(t *testing.T, b []byte, subject string) {
		_, p, where, stack := runAll(b, subject)
		if p != nil {
			t.Fatalf("%s panicked on %x (subject %q): %v\n%s", where, b, subject, p, stack)
		}
	})
}
