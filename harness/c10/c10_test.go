// Package c10 decides property C10: typed configuration survives
// Encode/Decode and Diff/Merge.
package c10

import (
	"fmt"
	"reflect"
	"testing"

	"github.com/simpleiot/simpleiot/data"
	"pgregory.net/rapid"

	"verif/internal/cfg"
	"verif/internal/fix"
	"verif/internal/stats"
)

func TestMain(m *testing.M) { fix.Quiet(); stats.Main(m) }

func shuffle(t *rapid.T, ps data.Points, label string) data.Points {
	if len(ps) < 2 || !rapid.Bool().Draw(t, label+"Shuffle") {
		return ps
	}
	if len(ps) > 64 {
		// rotate big lists instead of drawing a full permutation
		k := rapid.IntRange(0, len(ps)-1).Draw(t, label+"Rot")
		return append(append(data.Points{}, ps[k:]...), ps[:k]...)
	}
	return rapid.Permutation(ps).Draw(t, label+"Perm")
}

func summary(b cfg.Big) map[string]any {
	return map[string]any{"id": b.ID, "s": b.S, "i": b.I, "pi": fmt.Sprint(b.PI != nil), "pflat": fmt.Sprint(b.PFlat != nil),
		"len(si)": len(b.SI), "len(ss)": len(b.SS), "len(su8)": len(b.SU8), "mi": fmt.Sprint(b.MI), "a4": fmt.Sprint(b.A4), "kids": len(b.Kids)}
}

func TestPropRoundTrip(t *testing.T) {
	rapid.Check(t, func(t *rapid.T) {
		v := cfg.GenBig(t)
		nk := rapid.IntRange(0, 3).Draw(t, "nkids")
		for i := 0; i < nk; i++ {
			v.Kids = append(v.Kids, cfg.GenKid(t, v.ID, i))
		}
		ne, err := data.Encode(v)
		if err != nil {
			t.Fatalf("Encode of a supported value failed: %v", err)
		}
		if ne.Type != "big" || ne.ID != v.ID || ne.Parent != v.Parent {
			t.Fatalf("Encode header: type %q id %q parent %q", ne.Type, ne.ID, ne.Parent)
		}
		ne.Points = shuffle(t, ne.Points, "pts")
		ne.EdgePoints = shuffle(t, ne.EdgePoints, "epts")
		in := data.NodeEdgeChildren{NodeEdge: ne}
		for _, k := range v.Kids {
			kne, err := data.Encode(k)
			if err != nil {
				t.Fatalf("Encode kid: %v", err)
			}
			in.Children = append(in.Children, data.NodeEdgeChildren{NodeEdge: kne})
		}
		// a child of a type the struct does not declare is ignored
		if rapid.Bool().Draw(t, "strangerChild") {
			in.Children = append(in.Children, data.NodeEdgeChildren{NodeEdge: data.NodeEdge{ID: "zz", Type: "stranger", Parent: v.ID}})
		}
		var out cfg.Big
		if err := data.Decode(in, &out); err != nil {
			t.Fatalf("Decode(Encode(v)) failed: %v", err)
		}
		if !cfg.Equiv(out, v) {
			f := cfg.FirstDiff(out, v)
			t.Fatalf("Decode(Encode(v)) differs from v in field %s:\n got  %#v\n want %#v", f,
				reflect.ValueOf(out).FieldByName(f).Interface(), reflect.ValueOf(v).FieldByName(f).Interface())
		}
		big := len(v.SI) > 20 || len(v.SS) > 20 || len(v.SF) > 20 || len(v.SU8) > 20
		nt := (v.PFlat == nil || v.PI == nil || v.PS == nil) && (len(v.SI) > 0 || len(v.MI) > 0) && nk > 0
		cls := []string{}
		if big {
			cls = append(cls, "slice>20")
		}
		if len(v.SI) == 1000 || len(v.SS) == 1000 || len(v.SU8) == 1000 || len(v.SF) == 1000 {
			cls = append(cls, "slice=1000")
		}
		if nk > 0 {
			cls = append(cls, "children")
		}
		stats.Case(nt, stats.Digest(cfg.Render(v)), cls...)
		if nt && stats.WantSample() {
			stats.Sample(summary(v))
		}
	})
}

// classify names the interesting differences between two values.
func classify(a, b cfg.Big) (cls []string, nontrivial bool) {
	av, bv := reflect.ValueOf(a), reflect.ValueOf(b)
	set := map[string]bool{}
	for i := 0; i < av.NumField(); i++ {
		if av.Type().Field(i).Tag.Get("point") == "" {
			continue
		}
		x, y := av.Field(i), bv.Field(i)
		switch x.Kind() {
		case reflect.Slice:
			switch {
			case y.Len() < x.Len() && y.Len() == 0:
				set["sliceShrinkToEmpty"] = true
			case y.Len() < x.Len():
				set["sliceShrink"] = true
			case y.Len() > x.Len():
				set["sliceGrow"] = true
			}
		case reflect.Map:
			for _, k := range x.MapKeys() {
				if !y.MapIndex(k).IsValid() {
					set["mapEntryRemoved"] = true
				}
			}
			for _, k := range y.MapKeys() {
				if !x.MapIndex(k).IsValid() {
					set["mapEntryAdded"] = true
				}
			}
		case reflect.Pointer:
			name := "ptr"
			if x.Type().Elem().Kind() == reflect.Struct {
				name = "pstruct"
			}
			if !x.IsNil() && y.IsNil() {
				set[name+"ToNil"] = true
			}
			if x.IsNil() && !y.IsNil() {
				set["nilTo"+name] = true
			}
		case reflect.Array:
			if !reflect.DeepEqual(x.Interface(), y.Interface()) {
				set["arrayElemChange"] = true
			}
		}
	}
	for k := range set {
		cls = append(cls, k)
		switch k {
		case "arrayElemChange":
		default:
			nontrivial = true
		}
	}
	return
}

func TestPropDiffMerge(t *testing.T) {
	rapid.Check(t, func(t *rapid.T) {
		a := cfg.GenBig(t)
		ne, err := data.Encode(a)
		if err != nil {
			t.Fatalf("Encode: %v", err)
		}
		var x cfg.Big
		if err := data.Decode(data.NodeEdgeChildren{NodeEdge: ne}, &x); err != nil {
			t.Fatalf("Decode: %v", err)
		}
		steps := rapid.IntRange(1, 3).Draw(t, "chain")
		prev := a
		var allCls []string
		nt := false
		for s := 0; s < steps; s++ {
			var next cfg.Big
			if rapid.IntRange(0, 3).Draw(t, "independent") == 0 {
				next = cfg.Clone(prev)
				cfg.GenPointFields(t, &next)
			} else {
				next = cfg.Mutate(t, prev)
			}
			if rapid.IntRange(0, 4).Draw(t, "reslice") == 0 {
				// after is before with some slices cut by re-slicing (cfg.Tags = cfg.Tags[:k]):
				// both values share their backing arrays
				next = prev
				nv := reflect.ValueOf(&next).Elem()
				for i := 0; i < nv.NumField(); i++ {
					f := nv.Field(i)
					if nv.Type().Field(i).Tag.Get("point") == "" { // DiffPoints covers node points
						continue
					}
					if f.Kind() == reflect.Slice && f.Type().Elem().Kind() != reflect.Struct && f.Len() > 0 && rapid.Bool().Draw(t, "cut") {
						f.Set(f.Slice(0, rapid.IntRange(0, f.Len()-1).Draw(t, "cutTo")))
					}
				}
			}
			pts, err := data.DiffPoints(prev, next)
			if err != nil {
				t.Fatalf("DiffPoints failed: %v", err)
			}
			pts = shuffle(t, pts, "diff")
			if err := data.MergePoints(a.ID, pts, &x); err != nil {
				t.Fatalf("MergePoints (step %d) failed: %v\npoints: %v", s, err, pts)
			}
			if !cfg.Equiv(x, next) {
				f := cfg.FirstDiff(x, next)
				t.Fatalf("step %d: merging DiffPoints(before, after) into the value holding before does not give after; field %s:\n before %#v\n after  %#v\n got    %#v\n diff points: %v",
					s, f, reflect.ValueOf(prev).FieldByName(f).Interface(), reflect.ValueOf(next).FieldByName(f).Interface(),
					reflect.ValueOf(x).FieldByName(f).Interface(), pts)
			}
			cls, n := classify(prev, next)
			allCls = append(allCls, cls...)
			nt = nt || n
			if s > 0 {
				allCls = append(allCls, "chainStep")
			}
			prev = next
		}
		seen := map[string]bool{}
		var cls []string
		for _, c := range allCls {
			if !seen[c] {
				seen[c] = true
				cls = append(cls, c)
			}
		}
		stats.Case(nt, stats.Digest(cfg.Render(a), cfg.Render(prev)), cls...)
		if nt && stats.WantSample() {
			stats.Sample(map[string]any{"before": summary(a), "after_last_step": summary(prev), "steps": steps, "classes": cls})
		}
	})
}
