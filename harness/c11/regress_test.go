package c11

import (
	"encoding/binary"
	"math"
	"testing"

	"github.com/simpleiot/simpleiot/data"

	"verif/internal/cfg"
)

func mustNotPanic(t *testing.T, name string, f func() error) {
	t.Helper()
	if o := guard(f); o.panicked != nil {
		t.Fatalf("%s panicked: %v\n%s", name, o.panicked, o.stack)
	}
}

// key "" is index 0 of a slice
func TestRegressEmptyKeyIntoSlice(t *testing.T) {
	var b cfg.Big
	b.ID = "id1"
	mustNotPanic(t, "Decode", func() error {
		return data.Decode(data.NodeEdgeChildren{NodeEdge: data.NodeEdge{ID: "id1", Points: data.Points{{Type: "si", Key: "", Value: 5}}}}, &b)
	})
	if len(b.SI) != 1 || b.SI[0] != 5 {
		t.Fatalf("key \"\" must address index 0, got %v", b.SI)
	}
	mustNotPanic(t, "MergePoints", func() error { return data.MergePoints("id1", data.Points{{Type: "ss", Text: "x"}}, &b) })
	mustNotPanic(t, "MergeEdgePoints", func() error {
		return data.MergeEdgePoints("id1", "", data.Points{{Type: "es", Value: 1}}, &b)
	})
}

// a negative odd tombstone count is not "deleted" for either half of the decoder
func TestRegressNegativeOddTombstone(t *testing.T) {
	var b cfg.Big
	b.ID = "id1"
	mustNotPanic(t, "Decode", func() error {
		return data.Decode(data.NodeEdgeChildren{NodeEdge: data.NodeEdge{ID: "id1",
			Points: data.Points{{Type: "su64", Key: "3", Value: 1, Tombstone: -1}}, EdgePoints: data.Points{{Type: "es", Key: "2", Tombstone: -3}}}}, &b)
	})
}

// FuzzDecode: bytes -> (prior selector, node points, edge points); the oracle
// is the same as TestPropNoPanic's: no panic.
func FuzzDecode(f *testing.F) {
	enc := func(ps ...[]byte) []byte {
		var out []byte
		for _, p := range ps {
			out = append(out, p...)
		}
		return out
	}
	pt := func(typ, key byte, v float64, tomb byte, text string) []byte {
		b := []byte{typ, key}
		b = binary.LittleEndian.AppendUint64(b, math.Float64bits(v))
		b = append(b, tomb, byte(len(text)))
		return append(b, text...)
	}
	f.Add(enc([]byte{0}, pt(20, 0, 5, 0, "")))
	f.Add(enc([]byte{1}, pt(21, 3, 1, 1, "x"), pt(21, 2, 1, 0, "")))
	f.Add(enc([]byte{0}, pt(27, 0, 1, 7, ""), pt(28, 14, math.NaN(), 0, "abc")))
	f.Add(enc([]byte{1}, pt(40, 9, -1, 1, ""), pt(33, 12, 1e300, 0, "k")))
	f.Fuzz(func(t *testing.T, b []byte) {
		if len(b) < 1 {
			return
		}
		var base cfg.Big
		base.ID = "id1"
		if b[0]&1 == 1 {
			base.SI = []int{1, 2, 3}
			base.SS = []string{"a"}
			base.MS = map[string]string{"a": "b"}
			f := cfg.Flat{A: 1}
			base.PFlat = &f
			base.ES = []int32{4, 5}
		}
		b = b[1:]
		all := append(append([]string{}, nodeTypes...), edgeTypes...)
		tombs := []int{0, 1, 2, 3, -1, -2, math.MaxInt32, math.MinInt32}
		var nps, eps data.Points
		for len(b) >= 12 {
			typ := all[int(b[0])%len(all)]
			key := hostileKeys[int(b[1])%len(hostileKeys)]
			v := math.Float64frombits(binary.LittleEndian.Uint64(b[2:10]))
			tomb := tombs[int(b[10])%len(tombs)]
			n := int(b[11]) % 8
			b = b[12:]
			if n > len(b) {
				n = len(b)
			}
			text := string(b[:n])
			b = b[n:]
			p := data.Point{Type: typ, Key: key, Value: v, Tombstone: tomb, Text: text}
			if b0 := len(nps) + len(eps); b0%5 == 4 {
				p.Key = text // arbitrary keys too
			}
			if declared[typ] && contains(edgeTypes, typ) {
				eps = append(eps, p)
			} else {
				nps = append(nps, p)
			}
		}
		x := cfg.Clone(base)
		mustNotPanic(t, "Decode", func() error {
			return data.Decode(data.NodeEdgeChildren{NodeEdge: data.NodeEdge{ID: "id1", Points: nps, EdgePoints: eps}}, &x)
		})
		y := cfg.Clone(base)
		mustNotPanic(t, "MergePoints", func() error { return data.MergePoints("id1", nps, &y) })
		mustNotPanic(t, "MergeEdgePoints", func() error { return data.MergeEdgePoints("id1", "", eps, &y) })
	})
}

func contains(l []string, s string) bool {
	for _, x := range l {
		if x == s {
			return true
		}
	}
	return false
}

// TestRegressUnsettableFieldsReturnErrors: a configuration struct with
// unexported tagged fields. The decoder answers "cannot set value" in most
// places; a tombstoned point for an unexported slice (the trim at the end of
// the slice case) and any point for an unexported pointer-to-struct or
// non-nil map reached reflect's Set and panicked.
func TestRegressUnsettableFieldsReturnErrors(t *testing.T) {
	type inner struct {
		A int `point:"a"`
	}
	type priv struct {
		ID string             `node:"id"`
		ss []string           `point:"ss"`
		pf *inner             `point:"pflat"`
		mf map[string]float64 `point:"mf"`
	}
	for _, ps := range []data.Points{
		{{Type: "ss", Key: "0", Tombstone: 1}},
		{{Type: "pflat", Key: "a", Value: 1}},
		{{Type: "pflat", Key: "a", Tombstone: 1}},
		{{Type: "mf", Key: "k", Value: 1}},
		{{Type: "mf", Key: "k", Tombstone: 1}},
	} {
		w := priv{ID: "id1", mf: map[string]float64{"x": 1}}
		o := guard(func() error {
			return data.Decode(data.NodeEdgeChildren{NodeEdge: data.NodeEdge{ID: "id1", Type: "priv", Points: ps}}, &w)
		})
		if o.panicked != nil {
			t.Fatalf("Decode of %s into a struct with unexported fields panicked: %v", describe(ps), o.panicked)
		}
		o = guard(func() error { return data.MergePoints("id1", ps, &w) })
		if o.panicked != nil {
			t.Fatalf("MergePoints of %s into a struct with unexported fields panicked: %v", describe(ps), o.panicked)
		}
	}
}
