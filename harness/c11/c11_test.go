// Package c11 decides property C11: decoding or merging arbitrary points
// into any supported configuration type never panics, and points of types
// the configuration does not declare change nothing.
package c11

import (
	"fmt"
	"math"
	"math/big"
	"runtime/debug"
	"testing"
	"time"

	"github.com/simpleiot/simpleiot/data"
	"pgregory.net/rapid"

	"verif/internal/cfg"
	"verif/internal/fix"
	"verif/internal/stats"
)

func TestMain(m *testing.M) { fix.Quiet(); stats.Main(m) }

var nodeTypes = []string{"s", "b", "i", "i8", "i16", "i32", "i64", "u", "u8", "u16", "u32", "u64", "f32", "f64", "ps", "pi", "pf", "pb",
	"pflat", "vflat", "ss", "si", "sf", "sb", "su8", "si32", "sf32", "su64", "a4", "a7", "as", "au", "ms", "mi", "mf", "mb"}
var edgeTypes = []string{"role", "tombstone", "ei", "eu8", "es", "ep"}
var declared = func() map[string]bool {
	m := map[string]bool{}
	for _, t := range nodeTypes {
		m[t] = true
	}
	for _, t := range edgeTypes {
		m[t] = true
	}
	return m
}()

var hostileKeys = []string{"", "0", "1", "2", "3", "4", "6", "7", "-1", "+3", "007", "1e3", "999", "1000", "1001", "12", "13",
	"18446744073709551616", "9223372036854775807", "9223372036854775808", "18446744073709551615", "-9223372036854775808", "x", "a", "b", "c", "d", "e", " 1", "1 ", "0x1", "٣"}
var hostileValues = []float64{0, 1, -1, 0.5, 255, 256, 65535, 65536, -129, 128, 2147483648, -2147483649, 4294967296, 1 << 53, 1 << 63, -(1 << 63), 1e300, -1e300,
	math.NaN(), math.Inf(1), math.Inf(-1), math.MaxFloat64, math.SmallestNonzeroFloat64}

func genPoint(t *rapid.T, types []string) data.Point {
	var p data.Point
	switch rapid.IntRange(0, 9).Draw(t, "typeKind") {
	case 0:
		p.Type = rapid.SampledFrom([]string{"undeclared", "", "S", "nodeType", "xx"}).Draw(t, "utype")
	default:
		p.Type = rapid.SampledFrom(types).Draw(t, "type")
	}
	switch kk := rapid.IntRange(0, 7).Draw(t, "keyKind"); {
	case kk <= 1:
		p.Key = rapid.StringN(0, 4, 8).Draw(t, "rkey")
	case kk == 2:
		// decimal numbers around every power of two up to and beyond 2^64, either sign
		e := rapid.IntRange(0, 65).Draw(t, "keyPow")
		n := new(big.Int).Lsh(big.NewInt(1), uint(e))
		n.Add(n, big.NewInt(int64(rapid.IntRange(-2, 2).Draw(t, "keyOff"))))
		if rapid.IntRange(0, 3).Draw(t, "keyNeg") == 0 {
			n.Neg(n)
		}
		p.Key = n.String()
	case kk == 3:
		p.Key = fmt.Sprint(rapid.Uint64().Draw(t, "keyU64"))
	default:
		p.Key = rapid.SampledFrom(hostileKeys).Draw(t, "key")
	}
	if rapid.Bool().Draw(t, "hv") {
		p.Value = rapid.SampledFrom(hostileValues).Draw(t, "hvalue")
	} else {
		p.Value = math.Float64frombits(rapid.Uint64().Draw(t, "vbits"))
	}
	p.Text = cfg.Str().Draw(t, "text")
	p.Tombstone = rapid.SampledFrom([]int{0, 0, 0, 1, 1, 2, 3, -1, -2, math.MaxInt32, math.MinInt32, 1 << 40}).Draw(t, "tomb")
	if rapid.Bool().Draw(t, "hasTime") {
		p.Time = time.Unix(0, rapid.Int64().Draw(t, "time"))
	}
	return p
}

func genPoints(t *rapid.T, types []string, label string) data.Points {
	n := rapid.IntRange(0, 10).Draw(t, label)
	var out data.Points
	for i := 0; i < n; i++ {
		p := genPoint(t, types)
		out = append(out, p)
		// mixes of live and tombstoned points of one type are the interesting shape
		if rapid.IntRange(0, 3).Draw(t, "sameTypeAgain") == 0 {
			q := genPoint(t, []string{p.Type})
			q.Type = p.Type
			out = append(out, q)
		}
	}
	return out
}

type outcome struct {
	panicked any
	stack    string
	err      error
}

func guard(f func() error) (o outcome) {
	defer func() {
		if r := recover(); r != nil {
			o.panicked = r
			o.stack = string(debug.Stack())
		}
	}()
	o.err = f()
	return
}

// kidSpare is the spare capacity given to the child slice of every copy of the
// prior value made by check (cfg.CloneCap keeps capacities of scalar slices
// only); drawn per case in prior.
var kidSpare int

func spareKids(b *cfg.Big) {
	if kidSpare == 0 {
		return
	}
	k := make([]cfg.Kid, len(b.Kids)+kidSpare)
	copy(k, b.Kids)
	for i := len(b.Kids); i < len(k); i++ {
		k[i] = cfg.Kid{ID: "stale", Parent: "stale"}
	}
	b.Kids = k[:len(b.Kids)]
}

func prior(t *rapid.T) cfg.Big {
	kidSpare = 0
	if rapid.IntRange(0, 2).Draw(t, "zeroPrior") == 0 {
		return cfg.Big{ID: "id1"}
	}
	if rapid.Bool().Draw(t, "kidSpareCapacity") {
		// a child slice trimmed by its owner (Kids[:0], Kids[:n]) before the node is decoded again
		kidSpare = rapid.IntRange(1, 3).Draw(t, "kidExtraCap")
	}
	b := cfg.GenBig(t)
	b.ID = "id1"
	nk := rapid.IntRange(0, 2).Draw(t, "nkids")
	for i := 0; i < nk; i++ {
		b.Kids = append(b.Kids, cfg.GenKid(t, b.ID, i))
	}
	if rapid.Bool().Draw(t, "spareCapacity") {
		// slices with spare capacity holding stale values, as left behind by an
		// earlier Decode that trimmed them
		b = cfg.SpareCapacity(b, rapid.IntRange(1, 4).Draw(t, "extraCap"), cfg.GenBig(t))
	}
	return b
}

func classify(ps data.Points) (nt bool, cls []string) {
	live, dead := map[string]bool{}, map[string]bool{}
	hostile := false
	for _, p := range ps {
		if !declared[p.Type] {
			continue
		}
		if p.Tombstone%2 == 1 {
			dead[p.Type] = true
		} else {
			live[p.Type] = true
		}
		switch p.Key {
		case "", "-1", "+3", "007", "1e3", "999", "1000", "1001", "18446744073709551616":
			hostile = true
		}
	}
	mixed := false
	for k := range live {
		if dead[k] {
			mixed = true
		}
	}
	if mixed {
		cls = append(cls, "liveAndTombstonedOfOneType")
	}
	if hostile {
		cls = append(cls, "hostileKey")
	}
	return mixed || hostile, cls
}

func describe(ps data.Points) string {
	s := ""
	for _, p := range ps {
		s += fmt.Sprintf("{%q/%q v=%v text=%q tomb=%d} ", p.Type, p.Key, p.Value, p.Text, p.Tombstone)
	}
	return s
}

func check(t *rapid.T, name string, base cfg.Big, run func(b *cfg.Big, extra bool) error, ps data.Points) {
	a := cfg.CloneCap(base)
	spareKids(&a)
	oa := guard(func() error { return run(&a, false) })
	if oa.panicked != nil {
		t.Fatalf("%s panicked: %v\npoints: %s\n%s", name, oa.panicked, describe(ps), oa.stack)
	}
	// metamorphic: points of undeclared types change neither the value nor the error-ness
	b := cfg.CloneCap(base)
	spareKids(&b)
	ob := guard(func() error { return run(&b, true) })
	if ob.panicked != nil {
		t.Fatalf("%s (with undeclared points added) panicked: %v\npoints: %s\n%s", name, ob.panicked, describe(ps), ob.stack)
	}
	if (oa.err == nil) != (ob.err == nil) {
		t.Fatalf("%s: adding points of undeclared types changed the outcome: %v vs %v\npoints: %s", name, oa.err, ob.err, describe(ps))
	}
	if !nanFreeEquiv(a, b) {
		t.Fatalf("%s: adding points of undeclared types changed field %s\npoints: %s", name, cfg.FirstDiff(a, b), describe(ps))
	}
}

// nanFreeEquiv: equal, with NaN counting as equal to NaN.
func nanFreeEquiv(a, b cfg.Big) bool {
	return cfg.EquivNaN(a, b)
}

func interleave(t *rapid.T, ps, extra data.Points) data.Points {
	out := append(data.Points{}, ps...)
	for _, e := range extra {
		i := rapid.IntRange(0, len(out)).Draw(t, "insertAt")
		out = append(out[:i], append(data.Points{e}, out[i:]...)...)
	}
	return out
}

// withPrivate declares the same point types as cfg.Big for a few fields, some
// of which cannot be set through reflection.
type privFlat struct {
	A int `point:"a"`
	b string
	c float64
	D bool
}

type withPrivate struct {
	ID     string             `node:"id"`
	Parent string             `node:"parent"`
	VFlat  privFlat           `point:"vflat"`
	PFlat  *privFlat          `point:"pflat"`
	hidden int                `point:"i"`
	ss     []string           `point:"ss"`
	mf     map[string]float64 `point:"mf"`
	role   string             `edgepoint:"role"`
	S      string             `point:"s"`
}

func TestPropNoPanic(t *testing.T) {
	rapid.Check(t, func(t *rapid.T) {
		base := prior(t)
		nps := genPoints(t, nodeTypes, "nNodePoints")
		eps := genPoints(t, edgeTypes, "nEdgePoints")
		var stranger data.Points
		for i := rapid.IntRange(1, 3).Draw(t, "nStranger"); i > 0; i-- {
			p := genPoint(t, []string{"undeclared1", "zz", "SS", "vals"})
			if declared[p.Type] {
				p.Type = "undeclared1"
			}
			stranger = append(stranger, p)
		}
		npsX := interleave(t, nps, stranger)
		epsX := interleave(t, eps, stranger)
		pick := func(extra bool, a, b data.Points) data.Points {
			if extra {
				return b
			}
			return a
		}
		// children with arbitrary points
		var kids []data.NodeEdgeChildren
		for i := rapid.IntRange(0, 2).Draw(t, "nChildNodes"); i > 0; i-- {
			kids = append(kids, data.NodeEdgeChildren{NodeEdge: data.NodeEdge{ID: fmt.Sprint("kid", i), Type: rapid.SampledFrom([]string{"kid", "other"}).Draw(t, "kidType"),
				Points: genPoints(t, []string{"description", "vals"}, "nKidPoints")}})
		}
		check(t, "Decode", base, func(b *cfg.Big, extra bool) error {
			return data.Decode(data.NodeEdgeChildren{NodeEdge: data.NodeEdge{ID: "id1", Parent: "p", Type: "big",
				Points: pick(extra, nps, npsX), EdgePoints: pick(extra, eps, epsX)}, Children: kids}, b)
		}, append(append(data.Points{}, nps...), eps...))
		check(t, "MergePoints", base, func(b *cfg.Big, extra bool) error {
			return data.MergePoints("id1", pick(extra, nps, npsX), b)
		}, nps)
		check(t, "MergeEdgePoints", base, func(b *cfg.Big, extra bool) error {
			return data.MergeEdgePoints("id1", b.Parent, pick(extra, eps, epsX), b)
		}, eps)
		// a configuration type with fields the decoder cannot set (unexported, at
		// the top level and inside nested structs): an error is fine, a panic is not
		for _, run := range []struct {
			name string
			f    func(w *withPrivate) error
		}{
			{"Decode(unexported fields)", func(w *withPrivate) error {
				return data.Decode(data.NodeEdgeChildren{NodeEdge: data.NodeEdge{ID: "id1", Parent: "p", Type: "withPrivate", Points: nps, EdgePoints: eps}}, w)
			}},
			{"MergePoints(unexported fields)", func(w *withPrivate) error { return data.MergePoints("id1", nps, w) }},
			{"MergeEdgePoints(unexported fields)", func(w *withPrivate) error { return data.MergeEdgePoints("id1", "p", eps, w) }},
		} {
			w := withPrivate{ID: "id1", Parent: "p"}
			if rapid.Bool().Draw(t, "privPtrSet") {
				w.PFlat = &privFlat{A: 1}
			}
			if o := guard(func() error { return run.f(&w) }); o.panicked != nil {
				t.Fatalf("%s panicked: %v\npoints: %s %s\n%s", run.name, o.panicked, describe(nps), describe(eps), o.stack)
			}
		}
		if len(base.Kids) > 0 {
			kps := genPoints(t, []string{"description", "vals"}, "nKidMerge")
			check(t, "MergePoints(child)", base, func(b *cfg.Big, extra bool) error {
				return data.MergePoints(b.Kids[0].ID, kps, b)
			}, kps)
		}
		nt, cls := classify(append(append(data.Points{}, nps...), eps...))
		stats.Case(nt, stats.Digest(describe(nps), describe(eps), cfg.Render(base)), cls...)
		if nt && stats.WantSample() {
			stats.Sample(map[string]any{"node_points": describe(nps), "edge_points": describe(eps), "prior_zero": base.S == "" && base.SI == nil})
		}
	})
}
