package c03

import (
	"math"
	"testing"
	"time"

	"github.com/simpleiot/simpleiot/data"

	"verif/internal/fix"
	"verif/internal/model"
)

type w struct {
	id, parent string
	pts        data.Points
}

func at(ns int64) time.Time { return time.Unix(0, 1800000000000000000+ns) }

func edge(typ string, ns int64) data.Points {
	return data.Points{{Type: data.PointTypeTombstone, Time: at(ns)}, {Type: data.PointTypeNodeType, Text: typ, Time: at(ns + 1)}}
}

// play applies the writes and checks the Merkle equality after every one.
func play(t *testing.T, extra [][2]string, ws ...w) {
	in := fix.New(t, fix.Opts{ID: "inst"})
	defer in.Close()
	for i, x := range ws {
		var r string
		var err error
		if x.parent == "" {
			r, err = in.NodePoints(x.id, x.pts)
		} else {
			r, err = in.EdgePoints(x.id, x.parent, x.pts)
		}
		if err != nil || r != "" {
			t.Fatalf("write %d: %q %v", i, r, err)
		}
		d, err := fix.Dump(in.NC, extra)
		if err != nil {
			t.Fatal(err)
		}
		if s := model.CheckHashes(d); s != "" {
			t.Fatalf("after write %d (%s.%s):\n%s\n%s", i, x.id, x.parent, s, fix.DumpString(d))
		}
	}
}

// an edge point on one placement of a mirrored node must not touch the other placement
func TestRegressEdgePointOnMirror(t *testing.T) {
	play(t, nil,
		w{"g", "inst", edge("group", 0)},
		w{"n", "inst", edge("t", 10)},
		w{"n", "", data.Points{{Type: "value", Time: at(20), Value: 5}}},
		w{"n", "g", edge("t", 30)},
		w{"n", "g", data.Points{{Type: "role", Time: at(40), Text: "admin"}}},
		w{"n", "inst", data.Points{{Type: data.PointTypeTombstone, Time: at(50), Value: 1}}},
	)
}

// an edge attached above an already populated subtree covers the subtree
func TestRegressEdgeAbovePopulatedSubtree(t *testing.T) {
	play(t, [][2]string{{"p", "c"}},
		w{"c", "p", edge("t", 0)},
		w{"c", "", data.Points{{Type: "value", Time: at(5), Value: 1}}},
		w{"p", "inst", edge("group", 10)},
		w{"c", "", data.Points{{Type: "value", Time: at(20), Value: 2}}},
	)
}

// negative zero
func TestRegressNegativeZero(t *testing.T) {
	play(t, nil,
		w{"n", "inst", edge("t", 0)},
		w{"n", "", data.Points{{Type: "value", Time: at(5), Value: math.Copysign(0, -1)}}},
		w{"n", "inst", data.Points{{Type: "x", Time: at(6), Value: math.Copysign(0, -1)}}},
		w{"n", "", data.Points{{Type: "value", Time: at(7), Value: 3}}},
	)
}
