// Package c03 decides property C03: stored hashes equal the Merkle hash of
// the current content after every step of a generated history.
package c03

import (
	"strings"
	"testing"

	"pgregory.net/rapid"

	"verif/internal/fix"
	"verif/internal/sm"
	"verif/internal/stats"
)

func TestMain(m *testing.M) { fix.Quiet(); stats.Main(m) }

func TestPropMerkle(t *testing.T) {
	rapid.Check(t, func(t *rapid.T) {
		m := sm.New(t, sm.Opts{Maint: true})
		defer m.Close()
		t.Repeat(m.Actions(m.Check))
		if m.Abandoned {
			return // inconclusive (counted by the machine), neither a pass nor a failure
		}
		shape := m.Shape()
		has := func(s string) bool {
			for _, x := range shape {
				if x == s {
					return true
				}
			}
			return false
		}
		nt := (has("mirror") || has("attachAbove")) && has("edgePoints")
		stats.Case(nt, stats.Digest(m.History()), shape...)
		if nt && stats.WantSample() {
			h := m.Log
			if len(h) > 12 {
				h = append(append([]string{}, h[:12]...), "...")
			}
			stats.Sample(map[string]any{"steps": len(m.Log), "shape": strings.Join(shape, ","), "history": h})
		}
	})
}
