package c15

import (
	"fmt"
	"testing"
	"time"

	"github.com/simpleiot/simpleiot/client"
	"github.com/simpleiot/simpleiot/data"

	"verif/internal/fix"
	"verif/internal/known"
)

// exportImport builds one node with the point under "inst", exports it and
// imports it under "dest"; returns a description of the difference ("" if
// the point came back).
func exportImport(t *testing.T, p data.Point) string {
	in := fix.New(t, fix.Opts{ID: "inst"})
	defer in.Close()
	w := func(id, parent string, pts data.Points) {
		var r string
		var err error
		if parent == "" {
			r, err = in.NodePoints(id, pts)
		} else {
			r, err = in.EdgePoints(id, parent, pts)
		}
		if err != nil || r != "" {
			t.Fatalf("%q %v", r, err)
		}
	}
	now := time.Unix(1800000000, 0)
	w("dest", "inst", data.Points{{Type: data.PointTypeTombstone, Time: now}, {Type: data.PointTypeNodeType, Text: data.NodeTypeGroup}})
	w("n", "inst", data.Points{{Type: data.PointTypeTombstone, Time: now}, {Type: data.PointTypeNodeType, Text: data.NodeTypeVariable}})
	p.Time = now
	w("n", "", data.Points{p})
	y, err := client.ExportNodes(in.NC, "n")
	if err != nil {
		return "export failed: " + err.Error()
	}
	if err := func() (err error) {
		defer func() {
			if r := recover(); r != nil {
				err = fmt.Errorf("panic: %v", r)
			}
		}()
		return client.ImportNodes(in.NC, "dest", y, "imp", false)
	}(); err != nil {
		return "import failed: " + err.Error()
	}
	kids, err := in.Get("dest", "all", false)
	if err != nil || len(kids) != 1 {
		return fmt.Sprintf("imported node not found: %v %v", kids, err)
	}
	q, ok := kids[0].Points.Find(p.Type, p.Key)
	if !ok || q.Text != p.Text || q.Value != p.Value {
		return fmt.Sprintf("point %q text %q value %v came back as text %q value %v (found %v)", p.Type, p.Text, p.Value, q.Text, q.Value, ok)
	}
	return ""
}

// C15-F1: texts the YAML library emits as plain scalars that read back as something else
func TestKnownYAMLText(t *testing.T) {
	var fails []string
	for _, s := range []string{"- x", "null", "~", "? q", "\t", "a\r\nb", ".inf", "trailing  "} {
		if d := exportImport(t, data.Point{Type: "description", Text: s}); d != "" {
			fails = append(fails, fmt.Sprintf("%q: %s", s, d))
		}
	}
	known.Report(t, "C15", "C15-F1", "point texts/keys such as \"- x\", \"null\", \"~\", \"? q\", a tab, CR LF, \".inf\" do not survive ExportNodes+ImportNodes (goccy/go-yaml v1.11.2 emits them as plain scalars)",
		len(fails) > 0, fmt.Sprint(fails))
}

// C15-F2: values whose shortest decimal form has an exponent but no decimal point
func TestKnownYAMLFloat(t *testing.T) {
	var fails []string
	for _, v := range []float64{1e20, 1e-6, 5e-324, -1e18} {
		if d := exportImport(t, data.Point{Type: "value", Value: v}); d != "" {
			fails = append(fails, fmt.Sprintf("%v: %s", v, d))
		}
	}
	known.Report(t, "C15", "C15-F2", "point values printed as NeM without a decimal point (1e+20, 1e-06, 5e-324) are read back as strings, so the import fails",
		len(fails) > 0, fmt.Sprint(fails))
}
