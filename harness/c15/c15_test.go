// Package c15 decides property C15: export followed by import reproduces
// the tree (shape, types, points, edge points, consistent ids, import marker).
package c15

import (
	"fmt"
	"math"
	"sort"
	"strconv"
	"strings"
	"testing"
	"time"

	"github.com/goccy/go-yaml"
	"github.com/simpleiot/simpleiot/client"
	"github.com/simpleiot/simpleiot/data"
	"pgregory.net/rapid"

	"verif/internal/fix"
	"verif/internal/stats"
)

func TestMain(m *testing.M) { fix.Quiet(); stats.Main(m) }

// tnode is a generated node of the tree to export.
type tnode struct {
	id, typ  string
	marker   string // unique text of a point of type "marker"
	points   data.Points
	edge     data.Points // edge points besides tombstone and node type
	deleted  bool
	children []*tnode
}

var nodeTypes = []string{data.NodeTypeGroup, data.NodeTypeVariable, data.NodeTypeDevice, "rule", "condition", "modbus"}

var yamlTexts = []string{"", "plain", "a: b", "- x", "-", "# no comment", "'single'", "\"double\"", "it's", "| block", "> folded", " leading", "trailing ", "yes", "no",
	"null", "~", "true", "1e3", "0x10", "012", "1_000", ".inf", ".nan", "line1\nline2", "tab\there", "\t", "cr\r\nlf", "🎉", "‮rtl", "? q", "[a, b]", "{a: b}", "&anchor", "*alias",
	"!tag", "%dir", "@at", "`tick", "a #b", "key:", ":", "---", "...", "é", "\u00a0nbsp", "x\u2028y", "\\n", "C:\\path", "<<"}

var yamlValues = []float64{0, 1, -1, 0.5, 42, 1e20, 1e-6, 5e-324, 1e21, 123456789012, 1.5e300, -2.5e-10, 1 << 53, 3.141592653589793, 100, 1e6, 1e15, 1e16, 0.1}

// ---------------------------------------------------------------------------
// Known findings C15-F1 / C15-F2 (see KNOWN_FINDINGS.txt): the YAML
// dependency (goccy/go-yaml v1.11.2) does not round-trip some scalars on its
// own. A scalar is "covered by the finding" iff the library alone, given one
// point in a document shaped like an export, fails to give it back. Such
// scalars are redirected by the generators (and counted); everything else is
// judged.

type probeDoc struct{ Nodes []data.NodeEdgeChildren }

func libraryRoundTrips(p data.Point) (ok bool) {
	defer func() {
		if recover() != nil {
			ok = false
		}
	}()
	leaf := data.NodeEdgeChildren{NodeEdge: data.NodeEdge{ID: "c", Type: "t", Parent: "b", Points: data.Points{p}, EdgePoints: data.Points{p}}}
	mid := data.NodeEdgeChildren{NodeEdge: data.NodeEdge{ID: "b", Type: "t", Parent: "a", Points: data.Points{p}}, Children: []data.NodeEdgeChildren{leaf}}
	top := data.NodeEdgeChildren{NodeEdge: data.NodeEdge{ID: "a", Type: "t", Parent: "p", Points: data.Points{p, p}}, Children: []data.NodeEdgeChildren{mid}}
	b, err := yaml.Marshal(probeDoc{Nodes: []data.NodeEdgeChildren{top}})
	if err != nil {
		return false
	}
	var o probeDoc
	if err := yaml.Unmarshal(b, &o); err != nil {
		return false
	}
	same := func(q data.Point) bool {
		return q.Type == p.Type && q.Key == p.Key && q.Text == p.Text && q.Tombstone == p.Tombstone && (q.Value == p.Value || (q.Value != q.Value && p.Value != p.Value))
	}
	if len(o.Nodes) != 1 || len(o.Nodes[0].Points) != 2 || !same(o.Nodes[0].Points[0]) || !same(o.Nodes[0].Points[1]) {
		return false
	}
	m := o.Nodes[0].Children
	if len(m) != 1 || len(m[0].Points) != 1 || !same(m[0].Points[0]) || len(m[0].Children) != 1 {
		return false
	}
	l := m[0].Children[0]
	return len(l.Points) == 1 && same(l.Points[0]) && len(l.EdgePoints) == 1 && same(l.EdgePoints[0])
}

// unsafeText: scalar classes known not to survive (kept as a fast pre-filter
// and as documentation of the finding's extent)
func unsafeText(s string) bool {
	for _, r := range s {
		if (r < 0x20 && r != '\n') || (r >= 0x7f && r <= 0x9f) || r == 0xfeff || (r >= 0xe000 && r <= 0xf8ff) || r >= 0xf0000 {
			return true
		}
	}
	if strings.Contains(s, "\n ") || strings.HasSuffix(s, " ") {
		return true
	}
	switch strings.ToLower(s) {
	case "null", "~", ".inf", ".nan", "+.inf", "-.inf", "-", "?":
		return true
	}
	return strings.HasPrefix(s, "- ") || strings.HasPrefix(s, "? ")
}

// unsafeFloat: the shortest decimal form has an exponent but no decimal point
// (1e+20, 5e-324): the library reads it back as a string (finding C15-F2).
func unsafeFloat(v float64) bool {
	s := strconv.FormatFloat(v, 'g', -1, 64)
	return strings.ContainsAny(s, "eE") && !strings.Contains(s, ".")
}

func genText(t *rapid.T, label string) string {
	var s string
	switch rapid.IntRange(0, 3).Draw(t, label+"Kind") {
	case 0:
		s = rapid.SampledFrom(yamlTexts).Draw(t, label)
	case 1:
		s = rapid.StringN(0, 12, 40).Draw(t, label+"Rand")
	default:
		s = rapid.StringMatching(`[a-zA-Z0-9 :#'"|>-]{0,12}`).Draw(t, label+"Ascii")
	}
	if unsafeText(s) || !libraryRoundTrips(data.Point{Type: "x", Text: s}) {
		stats.Excluded("C15-F1 text the YAML library does not round-trip")
		return "safe " + strconv.Itoa(len(s))
	}
	return s
}

func genValue(t *rapid.T, label string) float64 {
	var v float64
	switch rapid.IntRange(0, 2).Draw(t, label+"Kind") {
	case 0:
		v = rapid.SampledFrom(yamlValues).Draw(t, label)
	case 1:
		v = float64(rapid.IntRange(-1000, 1000).Draw(t, label+"Int"))
	default:
		v = math.Float64frombits(rapid.Uint64().Draw(t, label+"Bits"))
		if math.IsNaN(v) || math.IsInf(v, 0) {
			v = 7.25
		}
	}
	if unsafeFloat(v) || !libraryRoundTrips(data.Point{Type: "x", Value: v}) {
		stats.Excluded("C15-F2 value printed without a decimal point")
		return v*0 + 12.5
	}
	return v
}

var pointTypes = filterSafe([]string{"value", "units", "min", "port", "baud", "a b", "x:y", "description2", "a#b", "é"}, false)
var pointKeys = filterSafe([]string{"", "0", "1", "2", "a", "k.1", "- k", "null", "10", "a: b", "#k", "007", "1e3", "yes", "k'", "00", "-0", "+0", "0.0", "0x0"}, true)

// filterSafe drops type/key candidates the YAML library does not round-trip
// on its own (part of finding C15-F1).
func filterSafe(in []string, key bool) []string {
	var out []string
	for _, s := range in {
		p := data.Point{Type: "x", Text: "v"}
		if key {
			p.Key = s
		} else {
			p.Type = s
		}
		if !unsafeText(s) && libraryRoundTrips(p) {
			out = append(out, s)
		}
	}
	return out
}

type gen struct {
	t     *rapid.T
	n     int
	all   []*tnode
	clock int64

	deepLeft int
}

func (g *gen) tick() time.Time { g.clock += 1000; return time.Unix(0, g.clock) }

func (g *gen) node(depth int) *tnode {
	t := g.t
	g.n++
	if depth == 0 && rapid.IntRange(0, 5).Draw(t, "deepChain") == 0 {
		g.deepLeft = rapid.IntRange(6, 10).Draw(t, "deepLevels")
	}
	n := &tnode{id: fmt.Sprintf("x%d", g.n), typ: rapid.SampledFrom(nodeTypes).Draw(t, "ntype"), marker: fmt.Sprintf("mk_%d_", g.n)}
	g.all = append(g.all, n)
	n.points = append(n.points, data.Point{Type: "marker", Text: n.marker, Time: g.tick()})
	if rapid.Bool().Draw(t, "hasDescription") {
		n.points = append(n.points, data.Point{Type: data.PointTypeDescription, Text: genText(t, "desc"), Time: g.tick()})
	}
	seen := map[string]bool{}
	for i := rapid.IntRange(0, 4).Draw(t, "npoints"); i > 0; i-- {
		p := data.Point{Type: rapid.SampledFrom(pointTypes).Draw(t, "ptype"), Key: rapid.SampledFrom(pointKeys).Draw(t, "pkey"), Time: g.tick()}
		k := p.Key
		if k == "" {
			k = "0"
		}
		if seen[p.Type+"\x00"+k] {
			continue
		}
		seen[p.Type+"\x00"+k] = true
		p.Value = genValue(t, "pvalue")
		p.Text = genText(t, "ptext")
		p.Tombstone = rapid.SampledFrom([]int{0, 0, 0, 1, 2, 3}).Draw(t, "ptomb")
		n.points = append(n.points, p)
	}
	for i := rapid.IntRange(0, 2).Draw(t, "nedge"); i > 0; i-- {
		p := data.Point{Type: rapid.SampledFrom([]string{"role", "order", "e x"}).Draw(t, "etype"), Time: g.tick()}
		if seen["e"+p.Type] {
			continue
		}
		seen["e"+p.Type] = true
		p.Value = genValue(t, "evalue")
		p.Text = genText(t, "etext")
		n.edge = append(n.edge, p)
	}
	if depth < 3 {
		max := 3
		if depth == 0 {
			max = 3
		}
		for i := rapid.IntRange(0, max).Draw(t, "nchildren"); i > 0; i-- {
			c := g.node(depth + 1)
			c.deleted = rapid.IntRange(0, 5).Draw(t, "deleted") == 0
			n.children = append(n.children, c)
		}
	} else if g.deepLeft > 0 {
		// one case in six: a chain far deeper than the bushy part (12+ levels below the exported node)
		g.deepLeft--
		n.children = append(n.children, g.node(depth+1))
	}
	return n
}

func depthOf(n *tnode) int {
	d := 1
	for _, c := range n.children {
		if !c.deleted {
			if x := 1 + depthOf(c); x > d {
				d = x
			}
		}
	}
	return d
}

func write(t *rapid.T, in *fix.Inst, id, parent string, pts data.Points) {
	var r string
	var err error
	if parent == "" {
		r, err = in.NodePoints(id, pts)
	} else {
		r, err = in.EdgePoints(id, parent, pts)
	}
	if err != nil || r != "" {
		t.Fatalf("building the tree: write %s %s: %q %v", id, parent, r, err)
	}
}

func (g *gen) build(in *fix.Inst, n *tnode, parent string) {
	ep := append(data.Points{{Type: data.PointTypeTombstone, Value: data.BoolToFloat(n.deleted), Time: g.tick()}, {Type: data.PointTypeNodeType, Text: n.typ}}, n.edge...)
	write(g.t, in, n.id, parent, ep)
	write(g.t, in, n.id, "", n.points)
	for _, c := range n.children {
		g.build(in, c, n.id)
	}
}

// ---------------------------------------------------------------------------
// comparison

type cp struct {
	Type, Key, Text string
	Value           float64
	Tombstone       int
}

func canon(ps data.Points, edge bool) []cp {
	var out []cp
	for _, p := range ps {
		if edge && (p.Type == data.PointTypeNodeType || (p.Type == data.PointTypeTombstone && p.Value == 0)) {
			continue
		}
		k := p.Key
		if k == "" {
			k = "0"
		}
		out = append(out, cp{p.Type, k, p.Text, p.Value, p.Tombstone})
	}
	sort.Slice(out, func(i, j int) bool {
		if out[i].Type != out[j].Type {
			return out[i].Type < out[j].Type
		}
		return out[i].Key < out[j].Key
	})
	return out
}

type live struct {
	node     data.NodeEdge
	children []*live
}

func readTree(in *fix.Inst, parent, id string) (*live, error) {
	ns, err := in.Get(parent, id, false)
	if err != nil {
		return nil, err
	}
	if len(ns) != 1 {
		return nil, fmt.Errorf("%d live nodes %s under %s", len(ns), id, parent)
	}
	l := &live{node: ns[0]}
	kids, err := in.Get(id, "all", false)
	if err != nil {
		return nil, err
	}
	for _, k := range kids {
		c, err := readTree(in, id, k.ID)
		if err != nil {
			return nil, err
		}
		l.children = append(l.children, c)
	}
	return l, nil
}

func markerOf(n data.NodeEdge) string {
	p, _ := n.Points.Find("marker", "")
	return p.Text
}

// compare walks original (a) and imported (b) in parallel; idMap collects
// old id -> new id.
func compare(a, b *live, top bool, idMap map[string]string, refs *[][2]string) string {
	if a.node.Type != b.node.Type {
		return fmt.Sprintf("node %s: type %q became %q", a.node.ID, a.node.Type, b.node.Type)
	}
	if old, ok := idMap[a.node.ID]; ok && old != b.node.ID {
		return fmt.Sprintf("node %s imported under two different ids %s and %s", a.node.ID, old, b.node.ID)
	}
	idMap[a.node.ID] = b.node.ID
	pa, pb := canon(a.node.Points, false), canon(b.node.Points, false)
	if len(pa) != len(pb) {
		return fmt.Sprintf("node %s (%s): %d points became %d\n exported from: %v\n imported:      %v", a.node.ID, markerOf(a.node), len(pa), len(pb), pa, pb)
	}
	for i := range pa {
		x, y := pa[i], pb[i]
		if x.Type == data.PointTypeNodeID {
			*refs = append(*refs, [2]string{x.Text, y.Text})
			y.Text = x.Text
		}
		if top && x.Type == data.PointTypeDescription {
			x.Text += " (import)"
		}
		if x != y && !(x.Value != x.Value && y.Value != y.Value) {
			return fmt.Sprintf("node %s (%s) point %q/%q: exported from {value %v text %q tombstone %d}, imported as %q/%q {value %v text %q tombstone %d}",
				a.node.ID, markerOf(a.node), x.Type, x.Key, x.Value, x.Text, x.Tombstone, y.Type, y.Key, y.Value, y.Text, y.Tombstone)
		}
	}
	ea, eb := canon(a.node.EdgePoints, true), canon(b.node.EdgePoints, true)
	if fmt.Sprint(ea) != fmt.Sprint(eb) {
		return fmt.Sprintf("node %s (%s): edge points %v became %v", a.node.ID, markerOf(a.node), ea, eb)
	}
	if len(a.children) != len(b.children) {
		return fmt.Sprintf("node %s (%s): %d live children became %d", a.node.ID, markerOf(a.node), len(a.children), len(b.children))
	}
	byMarker := map[string]*live{}
	for _, c := range b.children {
		byMarker[markerOf(c.node)] = c
	}
	for _, c := range a.children {
		d := byMarker[markerOf(c.node)]
		if d == nil {
			return fmt.Sprintf("child %s (%s) of %s is missing after import", c.node.ID, markerOf(c.node), a.node.ID)
		}
		if s := compare(c, d, false, idMap, refs); s != "" {
			return s
		}
	}
	return ""
}

func TestPropExportImport(t *testing.T) {
	rapid.Check(t, func(t *rapid.T) {
		// generated times lie in the past: what the importer stamps with the wall
		// clock is then newer than anything written before, as it is in real use
		g := &gen{t: t, clock: int64(1700000000) * 1e9}
		root := g.node(0)
		root.deleted = false
		src := fix.New(t, fix.Opts{ID: "inst"})
		defer src.Close()
		// the exported tree lives under a holder node (so that preserved ids can be re-imported elsewhere)
		write(t, src, "holder", "inst", data.Points{{Type: data.PointTypeTombstone, Time: g.tick()}, {Type: data.PointTypeNodeType, Text: data.NodeTypeGroup}})
		// cross references between nodes of the tree (and one to a node outside it)
		crossRefs := 0
		for _, n := range g.all {
			if rapid.IntRange(0, 3).Draw(t, "hasRef") == 0 {
				target := g.all[rapid.IntRange(0, len(g.all)-1).Draw(t, "refTo")].id
				if rapid.IntRange(0, 5).Draw(t, "external") == 0 {
					target = "holder"
				}
				// a reference may be a deleted (1, 3) or restored (2) one: it still names a node of the tree
				n.points = append(n.points, data.Point{Type: data.PointTypeNodeID, Key: strconv.Itoa(crossRefs), Text: target, Time: g.tick(),
					Tombstone: rapid.SampledFrom([]int{0, 0, 0, 1, 2, 3}).Draw(t, "refTomb")})
				crossRefs++
			}
		}
		movedTop := rapid.IntRange(0, 2).Draw(t, "movedTop") == 0
		if movedTop {
			// the top node was moved here: an older, deleted placement exists elsewhere
			write(t, src, root.id, "inst", data.Points{{Type: data.PointTypeTombstone, Value: 0, Time: g.tick()}, {Type: data.PointTypeNodeType, Text: root.typ}})
			write(t, src, root.id, "inst", data.Points{{Type: data.PointTypeTombstone, Value: 1, Time: g.tick()}})
		}
		g.build(src, root, "holder")
		// an occasional mirror inside the tree
		mirrored := false
		if len(g.all) >= 3 && rapid.IntRange(0, 3).Draw(t, "mirror") == 0 {
			a, b := g.all[len(g.all)-1], g.all[1]
			if a != b && !a.deleted && !b.deleted && !isAncestor(a, b) && !isChild(b, a) && liveInTree(root, a) && liveInTree(root, b) {
				write(t, src, a.id, b.id, data.Points{{Type: data.PointTypeTombstone, Time: g.tick()}, {Type: data.PointTypeNodeType, Text: a.typ}})
				mirrored = true
			}
		}

		orig, err := readTree(src, "holder", root.id)
		if err != nil {
			t.Fatalf("reading the tree: %v", err)
		}
		y, err := client.ExportNodes(src.NC, root.id)
		if err != nil {
			if strings.Contains(err.Error(), "nats: timeout") {
				stats.Inconclusive("helper 1 s request timeout")
				t.Skip("helper timeout")
			}
			t.Fatalf("ExportNodes: %v", err)
		}
		// deleted nodes are not exported
		for _, n := range g.all {
			if n.deleted && strings.Contains(string(y), "text: "+n.marker+"\n") {
				t.Fatalf("deleted node %s (%s) appears in the export:\n%s", n.id, n.marker, y)
			}
		}

		preserve := rapid.Bool().Draw(t, "preserveIDs")
		where := rapid.SampledFrom([]string{"otherNode", "rootNode", "secondInstance", "otherNode", "rootNode", "secondInstance", "replaceRoot", "restoreDeleted", "rootOntoItself", "restoreChanged"}).Draw(t, "target")
		dst := src
		parent := ""
		switch {
		case where == "rootOntoItself":
			// handled below
		case preserve && where != "restoreDeleted" && where != "restoreChanged":
			// preserved ids go to a second instance (on the same one they would name
			// the very nodes that were exported); the parent there has the original
			// parent's id, another id, or is the instance root
			dst = fix.New(t, fix.Opts{ID: "inst2"})
			defer dst.Close()
			parent = rapid.SampledFrom([]string{"holder", "holder2", "inst2"}).Draw(t, "preserveParent")
			where = "secondInstance(preserve)"
			if parent != "holder" {
				where = "secondInstance(preserve,otherParentID)"
			}
			if parent != "inst2" {
				write(t, dst, parent, "inst2", data.Points{{Type: data.PointTypeTombstone, Time: g.tick()}, {Type: data.PointTypeNodeType, Text: data.NodeTypeGroup}})
			}
		case where == "restoreChanged":
			// restore over a tree that is still there but has been changed since
			// the export: afterwards it holds what was exported again
			preserve = true
			nch := 0
			for _, n := range g.all {
				if n.deleted || !liveInTree(root, n) {
					continue
				}
				for _, pt := range n.points {
					if pt.Type == "marker" || pt.Type == data.PointTypeDescription || pt.Type == data.PointTypeNodeID || pt.Tombstone != 0 {
						continue
					}
					write(t, src, n.id, "", data.Points{{Type: pt.Type, Key: pt.Key, Value: pt.Value + 1, Text: "changed since", Time: g.tick()}})
					nch++
					break
				}
			}
			if nch == 0 {
				where = "restoreChanged(nothing to change)"
			}
			parent = "holder"
		case where == "restoreDeleted":
			// the backup-and-restore use: the exported subtree is deleted, then
			// imported again with its ids under the same parent of the same instance
			preserve = true
			write(t, src, root.id, "holder", data.Points{{Type: data.PointTypeTombstone, Value: 1, Time: g.tick()}})
			parent = "holder"
		case where == "otherNode":
			write(t, src, "dest", "inst", data.Points{{Type: data.PointTypeTombstone, Time: g.tick()}, {Type: data.PointTypeNodeType, Text: data.NodeTypeGroup}})
			parent = "dest"
		case where == "rootNode":
			parent = "inst"
		case where == "replaceRoot":
			// import at the literal parent "root": the imported top node becomes the
			// instance root of a second instance (the old root is deleted by the importer)
			dst = fix.New(t, fix.Opts{ID: "inst2"})
			defer dst.Close()
			parent = "root"
		default:
			dst = fix.New(t, fix.Opts{ID: "inst2"})
			defer dst.Close()
			parent = "inst2"
		}
		if where == "rootOntoItself" {
			// a whole instance is exported and imported again at "root" with its ids:
			// nothing changes (the root is not its own "old root")
			yAll, err := client.ExportNodes(src.NC, "inst")
			if err != nil {
				if strings.Contains(err.Error(), "nats: timeout") {
					stats.Inconclusive("helper 1 s request timeout")
					t.Skip("helper timeout")
				}
				t.Fatalf("ExportNodes(inst): %v", err)
			}
			if err := client.ImportNodes(src.NC, "root", yAll, "importer", true); err != nil {
				if strings.Contains(err.Error(), "nats: timeout") {
					stats.Inconclusive("helper 1 s request timeout")
					t.Skip("helper timeout")
				}
				t.Fatalf("importing the export of the whole instance at root with preserved ids failed: %v\nyaml:\n%s", err, yAll)
			}
			again, err := readTree(src, "holder", root.id)
			if err != nil {
				t.Fatalf("reading the tree after the import onto itself: %v", err)
			}
			if s := compare(orig, again, false, map[string]string{}, &[][2]string{}); s != "" {
				t.Fatalf("import of the whole instance onto itself changed the tree: %s\nyaml:\n%s", s, yAll)
			}
			if rn, err := client.GetRootNode(src.NC); err != nil || rn.ID != "inst" {
				t.Fatalf("root after the import onto itself: %v %v", rn.ID, err)
			}
			stats.Case(true, stats.Digest(string(yAll), where), "target:rootOntoItself")
			return
		}
		err = client.ImportNodes(dst.NC, parent, y, "importer", preserve)
		if err != nil {
			if strings.Contains(err.Error(), "nats: timeout") {
				stats.Inconclusive("helper 1 s request timeout")
				t.Skip("helper timeout")
			}
			t.Fatalf("ImportNodes into %s (preserve=%v) failed: %v\nyaml:\n%s", parent, preserve, err, y)
		}
		// find the imported top node under parent by its marker
		kids, err := dst.Get(parent, "all", false)
		if err != nil {
			t.Fatalf("read import parent: %v", err)
		}
		var topID string
		for _, k := range kids {
			if markerOf(k) == root.marker && (dst != src || k.ID != root.id || parent == "holder") {
				topID = k.ID
			}
		}
		if topID == "" {
			t.Fatalf("imported top node not found under %s\nyaml:\n%s", parent, y)
		}
		imp, err := readTree(dst, parent, topID)
		if err != nil {
			t.Fatalf("reading the imported tree: %v\nyaml:\n%s", err, y)
		}
		idMap := map[string]string{}
		var refs [][2]string
		if s := compare(orig, imp, true, idMap, &refs); s != "" {
			t.Fatalf("import differs from the exported tree (target %s, preserve=%v): %s\nyaml:\n%s", where, preserve, s, y)
		}
		// ids: identical when preserved, otherwise a bijection onto fresh ids applied to references too
		newIDs := map[string]string{}
		for o, n := range idMap {
			if preserve {
				if o != n {
					t.Fatalf("preserveIDs: node %s imported as %s", o, n)
				}
				continue
			}
			if o == n {
				t.Fatalf("node %s kept its id although ids are to be replaced", o)
			}
			if prev, dup := newIDs[n]; dup {
				t.Fatalf("nodes %s and %s both imported as %s", prev, o, n)
			}
			newIDs[n] = o
		}
		extMap := map[string]string{}
		for _, r := range refs {
			switch {
			case r[0] == "":
			case preserve:
				if r[0] != r[1] {
					t.Fatalf("preserveIDs: node-id reference %q became %q", r[0], r[1])
				}
			case idMap[r[0]] != "":
				if r[1] != idMap[r[0]] {
					t.Fatalf("node-id reference to %s became %q, the node was imported as %s", r[0], r[1], idMap[r[0]])
				}
			default:
				// reference to a node outside the tree: replaced consistently
				if prev, ok := extMap[r[0]]; ok && prev != r[1] {
					t.Fatalf("references to %s replaced inconsistently: %s and %s", r[0], prev, r[1])
				}
				extMap[r[0]] = r[1]
			}
		}
		hostile := false
		for _, n := range g.all {
			for _, p := range n.points {
				for _, h := range yamlTexts[2:] {
					if p.Text == h {
						hostile = true
					}
				}
			}
		}
		nt := depthOf(root) >= 3 && crossRefs >= 1 && hostile
		cls := []string{"target:" + where}
		if mirrored {
			cls = append(cls, "mirrorInTree")
		}
		if movedTop {
			cls = append(cls, "topNodeWasMoved")
		}
		if hostile {
			cls = append(cls, "yamlSignificantText")
		}
		if crossRefs > 0 {
			cls = append(cls, "crossReference")
		}
		stats.Case(nt, stats.Digest(string(y), where, preserve), cls...)
		if nt && stats.WantSample() {
			ys := string(y)
			if len(ys) > 600 {
				ys = ys[:600] + "..."
			}
			stats.Sample(map[string]any{"nodes": len(g.all), "depth": depthOf(root), "target": where, "preserveIDs": preserve, "yaml_head": ys})
		}
	})
}

func isChild(p, c *tnode) bool {
	for _, x := range p.children {
		if x == c {
			return true
		}
	}
	return false
}

func isAncestor(a, of *tnode) bool {
	for _, c := range a.children {
		if c == of || isAncestor(c, of) {
			return true
		}
	}
	return false
}

func liveInTree(root, n *tnode) bool {
	if root == n {
		return true
	}
	for _, c := range root.children {
		if !c.deleted && liveInTree(c, n) {
			return true
		}
	}
	return false
}
