package c15

import (
	"testing"
	"time"

	"github.com/simpleiot/simpleiot/client"
	"github.com/simpleiot/simpleiot/data"

	"verif/internal/fix"
)

// TestRegressRestoreDeletedSubtree: backup and restore. A node with an edge
// point of its own (besides the tombstone) is exported, deleted and imported
// again with its ids under the same parent. The export leaves out the
// "tombstone 0" edge point and SendNode added one only to nodes without any
// edge point, so the restored node stayed deleted.
func TestRegressRestoreDeletedSubtree(t *testing.T) {
	in := fix.New(t, fix.Opts{ID: "inst"})
	defer in.Close()
	t0 := time.Now().Add(-time.Hour)
	w := func(id, parent string, pts data.Points) {
		t.Helper()
		var r string
		var err error
		if parent == "" {
			r, err = in.NodePoints(id, pts)
		} else {
			r, err = in.EdgePoints(id, parent, pts)
		}
		if err != nil || r != "" {
			t.Fatalf("write %s %s: %q %v", id, parent, r, err)
		}
	}
	w("x1", "inst", data.Points{{Type: data.PointTypeTombstone, Time: t0}, {Type: data.PointTypeNodeType, Text: "group"}, {Type: "order", Value: 5, Time: t0}})
	w("x1", "", data.Points{{Type: data.PointTypeDescription, Text: "backup me", Time: t0}})
	w("x2", "x1", data.Points{{Type: data.PointTypeTombstone, Time: t0}, {Type: data.PointTypeNodeType, Text: "variable"}})
	y, err := client.ExportNodes(in.NC, "x1")
	if err != nil {
		t.Fatal(err)
	}
	w("x1", "inst", data.Points{{Type: data.PointTypeTombstone, Value: 1, Time: t0.Add(time.Minute)}})
	if ns, _ := in.Get("inst", "x1", false); len(ns) != 0 {
		t.Fatalf("x1 still listed after its deletion")
	}
	if err := client.ImportNodes(in.NC, "inst", y, "restore", true); err != nil {
		t.Fatalf("ImportNodes: %v", err)
	}
	ns, err := in.Get("inst", "x1", false)
	if err != nil || len(ns) != 1 {
		t.Fatalf("after export, deletion and import with preserved ids under the same parent, x1 is not there (%d live nodes, %v)\nyaml:\n%s", len(ns), err, y)
	}
	if kids, _ := in.Get("x1", "all", false); len(kids) != 1 || kids[0].ID != "x2" {
		t.Fatalf("restored x1 has children %v, want x2", kids)
	}
}
