// Package c06 decides property C06: every accepted write is rebroadcast on
// the subject of the node, of every ancestor and of the root sentinel, with
// the same points, and nowhere else.
package c06

import (
	"strings"
	"testing"

	"pgregory.net/rapid"

	"verif/internal/fix"
	"verif/internal/sm"
	"verif/internal/stats"
)

func TestMain(m *testing.M) { fix.Quiet(); stats.Main(m) }

func TestPropRebroadcast(t *testing.T) {
	rapid.Check(t, func(t *rapid.T) {
		m := sm.New(t, sm.Opts{})
		defer m.Close()
		// the rebroadcast oracle runs inside every write of the machine
		t.Repeat(m.Actions(m.Check))
		if m.Abandoned {
			return // inconclusive (counted by the machine), neither a pass nor a failure
		}
		shape := m.Shape()
		has := func(s string) bool {
			for _, x := range shape {
				if x == s {
					return true
				}
			}
			return false
		}
		nt := m.Flags["up>=3ancestors"] && (has("tombstonedEdge") || has("mirror"))
		stats.Case(nt, stats.Digest(m.History()), shape...)
		if nt && stats.WantSample() {
			h := m.Log
			if len(h) > 10 {
				h = append(append([]string{}, h[:10]...), "...")
			}
			stats.Sample(map[string]any{"steps": len(m.Log), "shape": strings.Join(shape, ","), "history": h})
		}
	})
}
