package c09

import (
	"context"
	"crypto/ecdsa"
	"crypto/elliptic"
	"crypto/rand"
	"crypto/x509"
	"crypto/x509/pkix"
	"encoding/pem"
	"fmt"
	"math/big"
	"net"
	"os"
	"path/filepath"
	"testing"
	"time"

	"github.com/nats-io/nats.go"
	"github.com/simpleiot/simpleiot/client"
	"github.com/simpleiot/simpleiot/server"

	"verif/internal/stats"
)

func freePort(t *testing.T) int {
	l, err := net.Listen("tcp", "127.0.0.1:0")
	if err != nil {
		t.Fatal(err)
	}
	defer l.Close()
	return l.Addr().(*net.TCPAddr).Port
}

// busCert is a self-signed certificate for 127.0.0.1, created once per test
// process by TestMain and made the process's only trusted root
// (SSL_CERT_FILE), so that the instance's own bus client accepts it too.
var busCert, busKey string

func makeBusCert() error {
	key, err := ecdsa.GenerateKey(elliptic.P256(), rand.Reader)
	if err != nil {
		return err
	}
	tmpl := x509.Certificate{
		SerialNumber: big.NewInt(1), Subject: pkix.Name{CommonName: "localhost"},
		NotBefore: time.Now().Add(-time.Hour), NotAfter: time.Now().Add(48 * time.Hour),
		KeyUsage: x509.KeyUsageDigitalSignature | x509.KeyUsageCertSign, ExtKeyUsage: []x509.ExtKeyUsage{x509.ExtKeyUsageServerAuth},
		IsCA: true, BasicConstraintsValid: true,
		DNSNames: []string{"localhost"}, IPAddresses: []net.IP{net.ParseIP("127.0.0.1")},
	}
	der, err := x509.CreateCertificate(rand.Reader, &tmpl, &tmpl, &key.PublicKey, key)
	if err != nil {
		return err
	}
	kder, err := x509.MarshalECPrivateKey(key)
	if err != nil {
		return err
	}
	dir, err := os.MkdirTemp("", "c09cert-")
	if err != nil {
		return err
	}
	busCert, busKey = filepath.Join(dir, "cert.pem"), filepath.Join(dir, "key.pem")
	if err := os.WriteFile(busCert, pem.EncodeToMemory(&pem.Block{Type: "CERTIFICATE", Bytes: der}), 0600); err != nil {
		return err
	}
	if err := os.WriteFile(busKey, pem.EncodeToMemory(&pem.Block{Type: "EC PRIVATE KEY", Bytes: kder}), 0600); err != nil {
		return err
	}
	return os.Setenv("SSL_CERT_FILE", busCert)
}

// TestEnumBusTokenRealServer: the bus of a whole instance (server.NewServer,
// the code that configures the embedded NATS server) started with an auth
// token refuses connections without the token or with another one, in every
// way the bus can be configured: plain TCP, and with a TLS certificate.
func TestEnumBusTokenRealServer(t *testing.T) {
	type cfg struct {
		name  string
		token string
		tls   bool
	}
	cfgs := []cfg{{"plain", "s3cr3t-Token", false}, {"plain, one-letter token", "x", false}, {"TLS", "s3cr3t-Token", true}}
	for _, c := range cfgs {
		dir, err := os.MkdirTemp("", "c09srv-")
		if err != nil {
			t.Fatal(err)
		}
		port := freePort(t)
		scheme := "nats"
		opts := server.Options{
			StoreFile: filepath.Join(dir, "s.sqlite"), DataDir: dir, HTTPPort: fmt.Sprint(freePort(t)),
			NatsPort: port, ID: "inst", AuthToken: c.token,
		}
		if c.tls {
			if busCert == "" {
				stats.Inconclusive("no TLS certificate could be created")
				continue
			}
			scheme = "tls"
			opts.NatsTLSCert, opts.NatsTLSKey, opts.NatsTLSTimeout = busCert, busKey, 5
		}
		url := fmt.Sprintf("%s://127.0.0.1:%d", scheme, port)
		opts.NatsServer = url
		s, nc, err := server.NewServer(opts)
		if err != nil {
			t.Fatalf("%s: NewServer: %v", c.name, err)
		}
		clients, _ := client.DefaultClients(nc)
		s.AddClient(clients)
		done := make(chan error, 1)
		go func() { done <- s.Run() }()
		ctx, cancel := context.WithTimeout(context.Background(), 30*time.Second)
		err = s.WaitStart(ctx)
		cancel()
		stop := func() {
			s.Stop(nil)
			select {
			case <-done:
			case <-time.After(30 * time.Second):
				t.Fatalf("%s: Server.Run did not return within 30 s of Stop", c.name)
			}
			nc.Close()
			os.RemoveAll(dir)
		}
		if err != nil {
			stop()
			if c.tls {
				// the instance's own client could not be made to trust the test certificate
				stats.Inconclusive("instance with a TLS bus did not start in the harness")
				t.Logf("%s: inconclusive, instance did not start: %v", c.name, err)
				continue
			}
			t.Fatalf("%s: server did not start: %v", c.name, err)
		}
		try := func(o ...nats.Option) error {
			o = append(o, nats.Timeout(5*time.Second), nats.MaxReconnects(0))
			if c.tls {
				o = append(o, nats.RootCAs(busCert))
			}
			x, err := nats.Connect(url, o...)
			if err != nil {
				return err
			}
			defer x.Close()
			_, err = client.GetNodes(x, "root", "all", "", false)
			return err
		}
		// the listener may come up a moment after WaitStart returns
		var okErr error
		for dl := time.Now().Add(15 * time.Second); ; {
			if okErr = try(nats.Token(c.token)); okErr == nil || time.Now().After(dl) {
				break
			}
			time.Sleep(100 * time.Millisecond)
		}
		if okErr != nil {
			stop()
			if c.tls {
				stats.Inconclusive("TLS bus: connection with the right token and the test certificate did not come about: " + okErr.Error())
				t.Logf("%s: inconclusive: %v", c.name, okErr)
				continue
			}
			t.Fatalf("%s: connection with the configured token refused: %v", c.name, okErr)
		}
		for _, bad := range []struct {
			what string
			o    []nats.Option
		}{
			{"no credentials", nil},
			{"another token", []nats.Option{nats.Token(c.token + "x")}},
			{"a prefix of the token", []nats.Option{nats.Token(c.token[:len(c.token)-1] + "_")}},
			{"the token as a user name", []nats.Option{nats.UserInfo(c.token, "")}},
		} {
			if err := try(bad.o...); err == nil {
				stop()
				t.Fatalf("%s bus with auth token %q: a connection with %s was accepted and served", c.name, c.token, bad.what)
			}
		}
		stop()
		t.Logf("%s bus: the token is enforced", c.name)
		stats.Enumerated(5, 5, "realServerBus:"+c.name)
	}
}
