package c09

import (
	"testing"
	"time"

	"github.com/golang-jwt/jwt/v4"
	"github.com/simpleiot/simpleiot/client"
	"github.com/simpleiot/simpleiot/data"

	"verif/internal/stats"
)

// a user that was moved (old edge deleted, new edge live) can log in
func TestRegressMovedUserCanLogIn(t *testing.T) {
	e := newEnv(t)
	defer e.close()
	at := func(i int64) time.Time { return time.Unix(0, 1800000000000000000+i) }
	w := func(id, parent string, pts data.Points) {
		t.Helper()
		var r string
		var err error
		if parent == "" {
			r, err = e.in.NodePoints(id, pts)
		} else {
			r, err = e.in.EdgePoints(id, parent, pts)
		}
		if err != nil || r != "" {
			t.Fatalf("%q %v", r, err)
		}
	}
	w("u", "", data.Points{{Type: data.PointTypeEmail, Text: "m@x.org", Time: at(1)}, {Type: data.PointTypePass, Text: "pw", Time: at(2)}})
	w("g", "inst", data.Points{{Type: data.PointTypeTombstone, Time: at(3)}, {Type: data.PointTypeNodeType, Text: data.NodeTypeGroup}})
	w("u", "inst", data.Points{{Type: data.PointTypeTombstone, Time: at(4)}, {Type: data.PointTypeNodeType, Text: data.NodeTypeUser}})
	w("u", "g", data.Points{{Type: data.PointTypeTombstone, Time: at(5)}, {Type: data.PointTypeNodeType, Text: data.NodeTypeUser}})
	w("u", "inst", data.Points{{Type: data.PointTypeTombstone, Value: 1, Time: at(6)}})
	nodes, err := client.UserCheck(e.in.NC, "m@x.org", "pw")
	if err != nil || len(nodes) == 0 {
		t.Fatalf("moved user cannot log in: %v %v", nodes, err)
	}
	// and a user whose every path is deleted cannot
	w("g", "inst", data.Points{{Type: data.PointTypeTombstone, Value: 1, Time: at(7)}})
	nodes, err = client.UserCheck(e.in.NC, "m@x.org", "pw")
	if err != nil || len(nodes) != 0 {
		t.Fatalf("user under a deleted group logged in: %v %v", nodes, err)
	}
}

// TestEnumTokenExpiresWhileInUse: a token that was accepted while valid is
// refused once it has expired (an accept-once cache would keep it alive).
func TestEnumTokenExpiresWhileInUse(t *testing.T) {
	e := newEnv(t)
	defer e.close()
	exp := time.Now().Unix() + 1
	tok := mint(jwt.SigningMethodHS256, e.key, time.Unix(exp, 0), "someone")
	c := cred{header: "Bearer " + tok, set: true}
	routes := [][3]string{{"GET", "/v1/nodes/inst", "all"}, {"POST", "/v1/nodes/inst/points", `[{"type":"value","value":1}]`}, {"GET", "/v1/nodes", ""}}
	used := 0
	for _, r := range routes {
		if time.Now().Unix() > exp {
			break
		}
		if rec := e.do(r[0], r[1], r[2], c); rec.Code == 401 && time.Now().Unix() <= exp {
			t.Fatalf("%s %s with a valid short-lived token: 401", r[0], r[1])
		}
		used++
	}
	for time.Now().Unix() <= exp {
		time.Sleep(50 * time.Millisecond)
	}
	time.Sleep(100 * time.Millisecond)
	e.spy.storeBound(e.in)
	for _, r := range routes {
		rec := e.do(r[0], r[1], r[2], c)
		traffic := e.spy.storeBound(e.in)
		if rec.Code != 401 || len(traffic) > 0 {
			t.Fatalf("%s %s with a token that expired after having been used %d times: status %d, bus traffic %v", r[0], r[1], used, rec.Code, traffic)
		}
	}
	stats.Enumerated(int64(2*len(routes)), int64(len(routes)), "tokenExpiresWhileInUse")
}
