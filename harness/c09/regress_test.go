package c09

import (
	"testing"
	"time"

	"github.com/simpleiot/simpleiot/client"
	"github.com/simpleiot/simpleiot/data"
)

// a user that was moved (old edge deleted, new edge live) can log in
func TestRegressMovedUserCanLogIn(t *testing.T) {
	e := newEnv(t)
	defer e.close()
	at := func(i int64) time.Time { return time.Unix(0, 1800000000000000000+i) }
	w := func(id, parent string, pts data.Points) {
		t.Helper()
		var r string
		var err error
		if parent == "" {
			r, err = e.in.NodePoints(id, pts)
		} else {
			r, err = e.in.EdgePoints(id, parent, pts)
		}
		if err != nil || r != "" {
			t.Fatalf("%q %v", r, err)
		}
	}
	w("u", "", data.Points{{Type: data.PointTypeEmail, Text: "m@x.org", Time: at(1)}, {Type: data.PointTypePass, Text: "pw", Time: at(2)}})
	w("g", "inst", data.Points{{Type: data.PointTypeTombstone, Time: at(3)}, {Type: data.PointTypeNodeType, Text: data.NodeTypeGroup}})
	w("u", "inst", data.Points{{Type: data.PointTypeTombstone, Time: at(4)}, {Type: data.PointTypeNodeType, Text: data.NodeTypeUser}})
	w("u", "g", data.Points{{Type: data.PointTypeTombstone, Time: at(5)}, {Type: data.PointTypeNodeType, Text: data.NodeTypeUser}})
	w("u", "inst", data.Points{{Type: data.PointTypeTombstone, Value: 1, Time: at(6)}})
	nodes, err := client.UserCheck(e.in.NC, "m@x.org", "pw")
	if err != nil || len(nodes) == 0 {
		t.Fatalf("moved user cannot log in: %v %v", nodes, err)
	}
	// and a user whose every path is deleted cannot
	w("g", "inst", data.Points{{Type: data.PointTypeTombstone, Value: 1, Time: at(7)}})
	nodes, err = client.UserCheck(e.in.NC, "m@x.org", "pw")
	if err != nil || len(nodes) != 0 {
		t.Fatalf("user under a deleted group logged in: %v %v", nodes, err)
	}
}
