// Package c09 decides property C09: no node access without valid
// credentials; valid users can log in; listings stay inside the user's places.
package c09

import (
	"database/sql"
	"encoding/json"
	"fmt"
	"net/http"
	"net/http/httptest"
	"net/url"
	"os"
	"sort"
	"strings"
	"sync"
	"testing"
	"time"

	"github.com/golang-jwt/jwt/v4"
	"github.com/nats-io/nats.go"
	"github.com/simpleiot/simpleiot/api"
	"github.com/simpleiot/simpleiot/client"
	"github.com/simpleiot/simpleiot/data"
	"pgregory.net/rapid"

	"verif/internal/fix"
	"verif/internal/model"
	"verif/internal/stats"
)

func TestMain(m *testing.M) {
	fix.Quiet()
	_ = makeBusCert() // before anything reads the system roots (see server_test.go)
	stats.Main(m)
}

const authToken = "s3cr3t-Token"

// spy records store-bound bus traffic seen by a second connection.
type spy struct {
	nc  *nats.Conn
	sub *nats.Subscription
	mu  sync.Mutex
}

func newSpy(in *fix.Inst) (*spy, error) {
	nc, err := in.Connect()
	if err != nil {
		return nil, err
	}
	sub, err := nc.SubscribeSync(">")
	if err != nil {
		return nil, err
	}
	sub.SetPendingLimits(-1, -1)
	if err := nc.Flush(); err != nil {
		return nil, err
	}
	return &spy{nc: nc, sub: sub}, nil
}

// storeBound returns the subjects of store-bound messages since the last call.
func (s *spy) storeBound(in *fix.Inst) []string {
	in.NC.Flush()
	s.nc.Flush()
	var out []string
	for {
		m, err := s.sub.NextMsg(time.Microsecond)
		if err != nil {
			break
		}
		for _, p := range []string{"p.", "nodes.", "node.", "auth.", "admin.", "up."} {
			if strings.HasPrefix(m.Subject, p) {
				out = append(out, m.Subject)
			}
		}
	}
	return out
}

type env struct {
	in      *fix.Inst
	spy     *spy
	handler http.Handler
	key     []byte
	dir     string
}

func newEnv(t fix.TB) *env {
	in := fix.New(t, fix.Opts{ID: "inst"})
	e := &env{in: in}
	var err error
	e.spy, err = newSpy(in)
	if err != nil {
		in.Close()
		t.Fatalf("spy: %v", err)
	}
	e.dir, _ = os.MkdirTemp("", "c09www-")
	os.WriteFile(e.dir+"/index.html", []byte("<html>public</html>"), 0o644)
	e.handler = api.NewAppHandler(api.ServerArgs{JwtAuth: in.St.GetAuthorizer(), AuthToken: authToken, Nc: in.NC, Filesystem: http.Dir(e.dir)})
	// the instance's signing key, read from the store file
	db, err := sql.Open("sqlite", in.File)
	if err == nil {
		err = db.QueryRow("SELECT jwt_key FROM meta").Scan(&e.key)
		db.Close()
	}
	if err != nil || len(e.key) == 0 {
		e.close()
		t.Fatalf("cannot read signing key: %v", err)
	}
	return e
}

func (e *env) close() {
	e.spy.nc.Close()
	e.in.Close()
	os.RemoveAll(e.dir)
}

func mint(method jwt.SigningMethod, key any, exp time.Time, id string) string {
	claims := jwt.StandardClaims{ExpiresAt: exp.Unix(), Issuer: "simpleiot", Id: id}
	s, err := jwt.NewWithClaims(method, claims).SignedString(key)
	if err != nil {
		panic(err)
	}
	return s
}

type cred struct {
	header     string
	set        bool
	authorised bool
	judged     bool // false: the statement does not decide this form; only observed
	class      string
}

func genCred(t *rapid.T, e *env, userID string) cred {
	valid := mint(jwt.SigningMethodHS256, e.key, time.Now().Add(time.Hour), userID)
	kind := rapid.SampledFrom([]string{"none", "authToken", "authTokenMangled", "bearerAuthToken", "validJWT", "issuedJWT", "wrongKey", "hs384", "hs512",
		"algNone", "expired", "truncated", "bitflip", "emptyBearer", "bearerOnly", "garbage", "lowercaseScheme", "extraSpace", "basic"}).Draw(t, "cred")
	c := cred{set: true, judged: true, class: kind}
	switch kind {
	case "none":
		c.set = false
	case "authToken":
		c.header, c.authorised = authToken, true
	case "authTokenMangled":
		c.header = rapid.SampledFrom([]string{strings.ToUpper(authToken), strings.ToLower(authToken), authToken + "x", "x" + authToken, authToken[:len(authToken)-1], authToken + authToken}).Draw(t, "mangled")
	case "bearerAuthToken":
		c.header = "Bearer " + authToken
	case "validJWT":
		c.header, c.authorised = "Bearer "+valid, true
	case "issuedJWT":
		tok, err := e.in.St.GetAuthorizer().NewToken(userID)
		if err != nil {
			t.Fatalf("NewToken: %v", err)
		}
		c.header, c.authorised = "Bearer "+tok, true
	case "wrongKey":
		c.header = "Bearer " + mint(jwt.SigningMethodHS256, []byte("another-key-another-key"), time.Now().Add(time.Hour), userID)
	case "hs384":
		c.header = "Bearer " + mint(jwt.SigningMethodHS384, e.key, time.Now().Add(time.Hour), userID)
	case "hs512":
		c.header = "Bearer " + mint(jwt.SigningMethodHS512, e.key, time.Now().Add(time.Hour), userID)
	case "algNone":
		c.header = "Bearer " + mint(jwt.SigningMethodNone, jwt.UnsafeAllowNoneSignatureType, time.Now().Add(time.Hour), userID)
	case "expired":
		c.header = "Bearer " + mint(jwt.SigningMethodHS256, e.key, time.Now().Add(-time.Duration(rapid.IntRange(1, 100000).Draw(t, "expiredSecs"))*time.Second-time.Minute), userID)
	case "truncated":
		c.header = "Bearer " + valid[:rapid.IntRange(0, len(valid)-1).Draw(t, "cut")]
	case "bitflip":
		b := []byte(valid)
		i := rapid.IntRange(0, len(b)-1).Draw(t, "flipAt")
		orig := b[i]
		// replace by another base64url character (or a dot)
		repl := "ABCDEFGHIJKLMNOPQRSTUVWXYZabcdefghijklmnopqrstuvwxyz0123456789-_"
		b[i] = repl[rapid.IntRange(0, len(repl)-1).Draw(t, "flipTo")]
		if b[i] == orig {
			b[i] = '.'
		}
		c.header = "Bearer " + string(b)
		// the last character of a base64url segment carries unused bits: changing
		// it may decode to the same bytes, so the result is only observed there
		if i == len(b)-1 || (i+1 < len(b) && b[i+1] == '.') || orig == '.' {
			c.judged = false
		}
	case "emptyBearer":
		c.header = "Bearer "
	case "bearerOnly":
		c.header = "Bearer"
	case "garbage":
		c.header = rapid.StringN(0, 20, 40).Draw(t, "garbage")
		if c.header == authToken || strings.HasPrefix(c.header, "Bearer") {
			c.header = "zz" + c.header
		}
	case "lowercaseScheme":
		c.header, c.judged = "bearer "+valid, false
	case "extraSpace":
		c.header, c.judged = "Bearer  "+valid+" ", false
	case "basic":
		c.header = "Basic " + valid
	}
	return c
}

var nodeIDs = []string{"inst", "n1", "n2", "zz", "all", "root"}

func genRequest(t *rapid.T) (method, target, body string, nodesAPI bool) {
	method = rapid.SampledFrom([]string{"GET", "POST", "PUT", "DELETE", "PATCH", "HEAD", "OPTIONS", "BREW", "GET", "POST"}).Draw(t, "method")
	id := rapid.SampledFrom(nodeIDs).Draw(t, "id")
	tail := rapid.SampledFrom([]string{"", "", "/points", "/samples", "/parents", "/not", "/junk", "/points/extra"}).Draw(t, "tail")
	switch rapid.IntRange(0, 9).Draw(t, "pathKind") {
	case 0:
		target = "/v1/nodes"
	case 1:
		target = "/v1/nodes/"
	case 2: // path tricks that still clean to /v1/nodes/...
		target = rapid.SampledFrom([]string{"//v1/nodes/", "/v1//nodes/", "/v1/./nodes/", "/v1/x/../nodes/", "/./v1/nodes/"}).Draw(t, "trick") + id + tail
	case 3: // other routes: not part of the node API
		target = rapid.SampledFrom([]string{"/", "/index.html", "/v1", "/v1/", "/v1/other", "/v2/nodes", "/sign-in", "/v1nodes"}).Draw(t, "otherPath")
		return method, target, "", false
	default:
		target = "/v1/nodes/" + id + tail
	}
	switch rapid.IntRange(0, 3).Draw(t, "bodyKind") {
	case 0:
		body = ""
	case 1:
		body = rapid.SampledFrom([]string{`[{"type":"value","value":5}]`, `{"id":"n9","type":"variable","parent":"inst","points":[{"type":"description","text":"x"}]}`,
			`{"parent":"inst"}`, `{"id":"n1","oldParent":"inst","newParent":"n2"}`, `{"id":"n1","newParent":"n2"}`, `{"subject":"s","message":"m"}`, `inst`}).Draw(t, "body")
	default:
		body = rapid.StringN(0, 20, 60).Draw(t, "junkBody")
	}
	return method, target, body, true
}

func (e *env) do(method, target, body string, c cred) *httptest.ResponseRecorder {
	req := httptest.NewRequest(method, "http://example.com"+target, strings.NewReader(body))
	if c.set {
		req.Header.Set("Authorization", c.header)
	}
	rec := httptest.NewRecorder()
	e.handler.ServeHTTP(rec, req)
	return rec
}

func TestPropHTTPAuth(t *testing.T) {
	rapid.Check(t, func(t *rapid.T) {
		e := newEnv(t)
		defer e.close()
		// two nodes so that authorised requests have something to act on
		for _, id := range []string{"n1", "n2"} {
			if r, err := e.in.EdgePoints(id, "inst", data.Points{{Type: data.PointTypeNodeType, Text: "variable"}, {Type: data.PointTypeTombstone}}); err != nil || r != "" {
				t.Fatalf("setup: %q %v", r, err)
			}
		}
		admin, _ := e.in.Get("inst", "all", false)
		userID := "nobody"
		for _, n := range admin {
			if n.Type == data.NodeTypeUser {
				userID = n.ID
			}
		}
		e.spy.storeBound(e.in)
		n := rapid.IntRange(5, 40).Draw(t, "nreq")
		nt := false
		cls := map[string]bool{}
		var sample []string
		for i := 0; i < n; i++ {
			c := genCred(t, e, userID)
			method, target, body, nodesAPI := genRequest(t)
			rec := e.do(method, target, body, c)
			traffic := e.spy.storeBound(e.in)
			desc := fmt.Sprintf("%s %s (body %q) Authorization[%s]=%q", method, target, body, c.class, c.header)
			if !c.set {
				desc = fmt.Sprintf("%s %s (body %q) without Authorization header", method, target, body)
			}
			if len(sample) < 4 {
				sample = append(sample, fmt.Sprintf("%s -> %d", desc, rec.Code))
			}
			if !c.judged {
				cls["observedOnly:"+c.class] = true
				continue
			}
			if !c.authorised {
				if len(traffic) > 0 {
					t.Fatalf("%s: unauthorised request caused bus traffic %v (status %d)", desc, traffic, rec.Code)
				}
				if nodesAPI && rec.Code != http.StatusUnauthorized {
					t.Fatalf("%s: unauthorised node request answered %d %q, expected 401", desc, rec.Code, rec.Body.String())
				}
				cls["unauthorised:"+c.class] = true
				if nodesAPI && (c.class == "wrongKey" || c.class == "hs384" || c.class == "hs512" || c.class == "expired" || c.class == "algNone" || c.class == "bitflip") &&
					(method == "POST" || method == "PUT" || method == "DELETE") {
					nt = true
				}
			} else {
				if rec.Code == http.StatusUnauthorized {
					t.Fatalf("%s: valid credentials answered 401", desc)
				}
				cls["authorised:"+c.class] = true
			}
		}
		var cl []string
		for c := range cls {
			cl = append(cl, c)
		}
		sort.Strings(cl)
		stats.Case(nt, stats.Digest(fmt.Sprint(sample), n), cl...)
		if nt && stats.WantSample() {
			stats.Sample(map[string]any{"requests": n, "first": sample})
		}
	})
}

// ---------------------------------------------------------------------------
// login and listing over generated user placements

type userRec struct {
	id, email, pass string
}

func TestPropLogin(t *testing.T) {
	rapid.Check(t, func(t *rapid.T) {
		e := newEnv(t)
		defer e.close()
		in := e.in
		g := model.NewGraph("inst")
		// seed the model with what initialisation created (root edge, admin user)
		d0, err := fix.Dump(in.NC, nil)
		if err != nil {
			t.Fatalf("dump: %v", err)
		}
		for _, ed := range d0 {
			g.AddEdge(ed.Parent, ed.ID, ed.Type)
		}
		clock := int64(1800000000) * 1e9
		tick := func() time.Time { clock += 1000; return time.Unix(0, clock) }
		write := func(id, parent string, pts data.Points) {
			var r string
			var err error
			if parent == "" {
				r, err = in.NodePoints(id, pts)
			} else {
				r, err = in.EdgePoints(id, parent, pts)
			}
			if err != nil || r != "" {
				t.Fatalf("write %s %s: %q %v", id, parent, r, err)
			}
		}
		place := func(id, parent, typ string) {
			write(id, parent, data.Points{{Type: data.PointTypeTombstone, Value: 0, Time: tick()}, {Type: data.PointTypeNodeType, Text: typ}})
			if ed := g.Edge(parent, id); ed == nil {
				g.AddEdge(parent, id, typ)
			} else {
				ed.Tomb = false
			}
		}
		setTomb := func(id, parent string, del bool) {
			v := 0.0
			if del {
				v = 1
			}
			write(id, parent, data.Points{{Type: data.PointTypeTombstone, Value: v, Time: tick()}})
			g.Edge(parent, id).Tomb = del
		}
		// e-mails are matched as they are stored (one of them has capitals)
		users := []userRec{{"u0", "a@x.org", "pw0"}, {"u1", "B.User@X.org", "pw1"}}
		groups := []string{"g0", "g1", "g2"}
		placedGroups := []string{}
		for _, u := range users {
			write(u.id, "", data.Points{{Type: data.PointTypeEmail, Text: u.email, Time: tick()}, {Type: data.PointTypePass, Text: u.pass, Time: tick()},
				{Type: data.PointTypeFirstName, Text: u.id, Time: tick()}})
		}
		containers := func() []string { return append([]string{"inst"}, placedGroups...) }
		flags := map[string]bool{}
		lastToken := map[string]string{}
		steps := rapid.IntRange(2, 14).Draw(t, "steps")
		var hist []string
		for s := 0; s < steps; s++ {
			switch rapid.SampledFrom([]string{"placeGroup", "placeUser", "placeUser", "deleteEdge", "undeleteEdge", "moveUser", "variable"}).Draw(t, "op") {
			case "placeGroup":
				gid := rapid.SampledFrom(groups).Draw(t, "group")
				parent := rapid.SampledFrom(containers()).Draw(t, "parent")
				if parent == gid || g.WouldCycle(parent, gid) {
					continue
				}
				place(gid, parent, data.NodeTypeGroup)
				found := false
				for _, x := range placedGroups {
					found = found || x == gid
				}
				if !found {
					placedGroups = append(placedGroups, gid)
				}
				hist = append(hist, "group "+gid+" under "+parent)
			case "placeUser":
				u := rapid.SampledFrom(users).Draw(t, "user")
				parent := rapid.SampledFrom(containers()).Draw(t, "parent")
				place(u.id, parent, data.NodeTypeUser)
				hist = append(hist, "user "+u.id+" under "+parent)
				if len(g.Parents(u.id, true)) > 1 {
					flags["mirroredUser"] = true
				}
			case "deleteEdge", "undeleteEdge":
				var es []*model.Edge
				for _, k := range g.Order {
					if ed := g.Edges[k]; ed.Parent != "root" {
						es = append(es, ed)
					}
				}
				if len(es) == 0 {
					continue
				}
				ed := rapid.SampledFrom(es).Draw(t, "edge")
				del := rapid.IntRange(0, 2).Draw(t, "delete") > 0
				setTomb(ed.ID, ed.Parent, del)
				hist = append(hist, fmt.Sprintf("tombstone=%v on %s>%s", del, ed.Parent, ed.ID))
				if del && ed.Type == data.NodeTypeGroup {
					flags["deletedGroup"] = true
				}
			case "moveUser":
				u := rapid.SampledFrom(users).Draw(t, "user")
				ps := g.Parents(u.id, false)
				if len(ps) == 0 {
					continue
				}
				from := rapid.SampledFrom(ps).Draw(t, "from")
				to := rapid.SampledFrom(containers()).Draw(t, "to")
				if to == from {
					continue
				}
				place(u.id, to, data.NodeTypeUser)
				setTomb(u.id, from, true)
				flags["movedUser"] = true
				hist = append(hist, "move "+u.id+" "+from+"->"+to)
			case "variable":
				parent := rapid.SampledFrom(containers()).Draw(t, "parent")
				vid := "v-" + parent
				place(vid, parent, "variable")
				hist = append(hist, "variable under "+parent)
			}
			// oracle after every step
			for _, u := range users {
				// a token issued earlier stays valid when the user is moved or
				// deleted afterwards; its listing follows the user's places as they
				// are now (none: nothing is listed)
				if tok := lastToken[u.id]; tok != "" {
					if len(g.Parents(u.id, false)) == 0 {
						flags["listingAfterUserDeleted"] = true
					}
					checkListing(t, e, g, u.id, tok, hist)
				}
				reach := g.LiveFromRoot(u.id)
				for _, try := range []struct {
					email, pass string
					want        bool
				}{{u.email, u.pass, reach}, {u.email, u.pass + "x", false}, {"nobody@x.org", u.pass, false}, {u.email, "", false}} {
					nodes, err := client.UserCheck(in.NC, try.email, try.pass)
					if err != nil {
						if strings.Contains(err.Error(), "nats: timeout") {
							stats.Inconclusive("helper request time-out (hard-coded in the client package)")
							t.Skip("helper timeout")
						}
						t.Fatalf("UserCheck: %v", err)
					}
					token := ""
					for _, n := range nodes {
						if n.Type == data.NodeTypeJWT {
							if p, ok := n.Points.Find(data.PointTypeToken, ""); ok {
								token = p.Text
							}
						}
					}
					if (token != "") != try.want {
						t.Fatalf("login %s/%s: token issued=%v, but user %s connected to the root through live edges=%v\nhistory: %v", try.email, try.pass, token != "", u.id, reach, hist)
					}
					// the HTTP login agrees
					form := url.Values{"email": {try.email}, "password": {try.pass}}
					req := httptest.NewRequest("POST", "http://example.com/v1/auth", strings.NewReader(form.Encode()))
					req.Header.Set("Content-Type", "application/x-www-form-urlencoded")
					rec := httptest.NewRecorder()
					e.handler.ServeHTTP(rec, req)
					if try.want && rec.Code != 200 || !try.want && rec.Code == 200 {
						t.Fatalf("POST /v1/auth %s/%s: status %d, expected login=%v\nhistory: %v", try.email, try.pass, rec.Code, try.want, hist)
					}
					if try.want {
						var a data.Auth
						if err := json.Unmarshal(rec.Body.Bytes(), &a); err != nil || a.Token == "" {
							t.Fatalf("POST /v1/auth: no token in %q", rec.Body.String())
						}
						checkListing(t, e, g, u.id, a.Token, hist)
						lastToken[u.id] = a.Token
					}
				}
			}
		}
		nt := false
		for _, u := range users {
			ps := g.Parents(u.id, true)
			live := g.Parents(u.id, false)
			if len(ps) >= 2 && len(live) < len(ps) {
				nt = true
			}
		}
		var cl []string
		for f := range flags {
			cl = append(cl, f)
		}
		sort.Strings(cl)
		stats.Case(nt, stats.Digest(fmt.Sprint(hist)), cl...)
		if nt && stats.WantSample() {
			stats.Sample(map[string]any{"history": hist})
		}
	})
}

// checkListing: GET /v1/nodes with the user's token returns only nodes in the
// subtrees of the parents of the user's placements, and those parents.
func checkListing(t *rapid.T, e *env, g *model.Graph, userID, token string, hist []string) {
	req := httptest.NewRequest("GET", "http://example.com/v1/nodes", nil)
	req.Header.Set("Authorization", "Bearer "+token)
	rec := httptest.NewRecorder()
	e.handler.ServeHTTP(rec, req)
	if rec.Code != 200 {
		t.Fatalf("GET /v1/nodes with an issued token: %d %q", rec.Code, rec.Body.String())
	}
	var nodes []data.NodeEdge
	if err := json.Unmarshal(rec.Body.Bytes(), &nodes); err != nil {
		t.Fatalf("listing: %v in %q", err, rec.Body.String())
	}
	allowed := map[string]bool{}
	var down func(id string)
	down = func(id string) {
		for _, c := range g.Children(id, false) {
			if !allowed[c] {
				allowed[c] = true
				down(c)
			}
		}
	}
	places := g.Parents(userID, false)
	for _, p := range places {
		allowed[p] = true
		down(p)
	}
	got := map[string]bool{}
	for _, n := range nodes {
		got[n.ID] = true
		if !allowed[n.ID] {
			t.Fatalf("listing of %s contains %s (%s), which is outside the subtrees of its places %v\nhistory: %v", userID, n.ID, n.Type, places, hist)
		}
	}
	for _, p := range places {
		// a place that is itself deleted everywhere has no live placement to list
		if len(g.Parents(p, false)) > 0 && !got[p] {
			t.Fatalf("listing of %s lacks its place %s\nhistory: %v", userID, p, hist)
		}
	}
}

// TestPropBusToken: a bus configured with a token refuses connections
// without it or with another one.
func TestPropBusToken(t *testing.T) {
	rapid.Check(t, func(t *rapid.T) {
		tok := rapid.StringMatching(`[A-Za-z0-9]{1,24}`).Draw(t, "token")
		in := fix.New(t, fix.Opts{TCP: true, AuthToken: tok, ID: "inst"})
		defer in.Close()
		other := rapid.OneOf(rapid.StringMatching(`[A-Za-z0-9]{1,24}`), rapid.SampledFrom([]string{tok + "x", tok[:len(tok)-1], strings.ToUpper(tok) + "_"})).Draw(t, "other")
		try := func(opts ...nats.Option) error {
			nc, err := nats.Connect(in.URL, append(opts, nats.Timeout(5*time.Second))...)
			if err == nil {
				// connected: make sure a request really goes through
				_, err2 := client.GetNodes(nc, "root", "all", "", false)
				nc.Close()
				return err2
			}
			return err
		}
		if err := try(); err == nil {
			t.Fatalf("connection without a token accepted (token %q)", tok)
		}
		if other != tok {
			if err := try(nats.Token(other)); err == nil {
				t.Fatalf("connection with token %q accepted, configured %q", other, tok)
			}
		}
		if err := try(nats.Token(tok)); err != nil {
			t.Fatalf("connection with the right token refused: %v", err)
		}
		stats.Case(true, stats.Digest(tok, other), "busToken")
		if stats.WantSample() {
			stats.Sample(map[string]any{"token": tok, "wrong_token": other})
		}
	})
}
