// crashwriter opens a store on the given file (in-process NATS), replays a
// write history and reports progress on stdout, one write(2) per line:
//
//	READY <root id> <token>
//	ACK <i>
//	DONE
package main

import (
	"encoding/json"
	"fmt"
	"os"
	"time"

	"github.com/simpleiot/simpleiot/client"
	"github.com/simpleiot/simpleiot/data"

	"verif/internal/fix"
)

// Batch is one write of the history.
type Batch struct {
	Subject string
	Points  []P
}

// P is a point in JSON form.
type P struct {
	Type, Key, Text, Origin string
	TimeNs                  int64
	Value                   float64
	Tombstone               int
	Data                    []byte
}

func say(s string) { os.Stdout.Write([]byte(s + "\n")) }

func main() {
	fix.Quiet()
	if len(os.Args) < 3 {
		fmt.Fprintln(os.Stderr, "usage: crashwriter <dir> <history.json>")
		os.Exit(2)
	}
	var hist []Batch
	b, err := os.ReadFile(os.Args[2])
	if err == nil {
		err = json.Unmarshal(b, &hist)
	}
	if err != nil {
		fmt.Fprintln(os.Stderr, "history:", err)
		os.Exit(2)
	}
	in, err := fix.Start(fix.Opts{Dir: os.Args[1], ID: "inst"})
	if err != nil {
		fmt.Fprintln(os.Stderr, "open:", err)
		os.Exit(3)
	}
	tok, _ := in.St.GetAuthorizer().NewToken("someone")
	root, err := client.GetRootNode(in.NC)
	if err != nil {
		fmt.Fprintln(os.Stderr, "root:", err)
		os.Exit(3)
	}
	say("READY " + root.ID + " " + tok)
	for i, bt := range hist {
		var pts data.Points
		for _, p := range bt.Points {
			pts = append(pts, data.Point{Type: p.Type, Key: p.Key, Text: p.Text, Origin: p.Origin, Time: time.Unix(0, p.TimeNs), Value: p.Value, Tombstone: p.Tombstone, Data: p.Data})
		}
		r, err := fix.Write(in.NC, bt.Subject, pts)
		if err != nil || r != "" {
			fmt.Fprintf(os.Stderr, "batch %d refused: %q %v\n", i, r, err)
			os.Exit(4)
		}
		say(fmt.Sprintf("ACK %d", i))
	}
	say("DONE")
	in.StopStore(10 * time.Second)
}
