// crashsup runs a command under ptrace and kills the whole process with
// SIGKILL on entry to its N-th I/O system call, counted globally over all of
// its threads (write/pwrite64/writev/pwritev to descriptors > 2, fsync,
// fdatasync, ftruncate, fallocate, unlink(at), rename(at)). With -n 0 nothing
// is killed. It reports on stderr:
//
//	OUT <k> <count>   the k-th write to descriptor 1 happened after <count> I/O calls
//	TOTAL <count>     I/O calls seen when the process ended
//	KILLED <count>    the process was killed at that call
package main

import (
	"flag"
	"fmt"
	"os"
	"os/exec"
	"runtime"
	"syscall"
)

const (
	ptraceOTraceSysGood = 0x1
	ptraceOTraceClone   = 0x8
	ptraceOTraceFork    = 0x2
	ptraceOTraceVFork   = 0x4
	ptraceOExitKill     = 0x100000
)

func isIO(nr, fd uint64) bool {
	switch nr {
	case 1, 18, 20, 296: // write pwrite64 writev pwritev
		return fd > 2
	case 74, 75, 77, 285, 87, 82, 263, 264, 316: // fsync fdatasync ftruncate fallocate unlink rename unlinkat renameat renameat2
		return true
	}
	return false
}

func main() {
	n := flag.Int("n", 0, "kill at the n-th I/O system call (0 = never)")
	flag.Parse()
	args := flag.Args()
	if len(args) == 0 {
		fmt.Fprintln(os.Stderr, "usage: crashsup -n N cmd args...")
		os.Exit(2)
	}
	runtime.LockOSThread()
	cmd := exec.Command(args[0], args[1:]...)
	cmd.Stdout = os.Stdout
	cmd.Stderr = os.Stderr
	cmd.SysProcAttr = &syscall.SysProcAttr{Ptrace: true}
	if err := cmd.Start(); err != nil {
		fmt.Fprintln(os.Stderr, "start:", err)
		os.Exit(2)
	}
	pid := cmd.Process.Pid
	var ws syscall.WaitStatus
	if _, err := syscall.Wait4(pid, &ws, 0, nil); err != nil {
		fmt.Fprintln(os.Stderr, "wait:", err)
		os.Exit(2)
	}
	opts := ptraceOTraceSysGood | ptraceOTraceClone | ptraceOTraceFork | ptraceOTraceVFork | ptraceOExitKill
	if err := syscall.PtraceSetOptions(pid, opts); err != nil {
		fmt.Fprintln(os.Stderr, "setoptions:", err)
		syscall.Kill(pid, syscall.SIGKILL)
		os.Exit(2)
	}
	syscall.PtraceSyscall(pid, 0)
	inSyscall := map[int]bool{}
	count, outs := 0, 0
	killed := false
	for {
		tid, err := syscall.Wait4(-1, &ws, 0x40000000 /* __WALL */, nil)
		if err != nil {
			break
		}
		if ws.Exited() || ws.Signaled() {
			delete(inSyscall, tid)
			if tid == pid {
				break
			}
			continue
		}
		if !ws.Stopped() {
			continue
		}
		sig := ws.StopSignal()
		switch {
		case sig == syscall.SIGTRAP|0x80: // syscall stop
			if !inSyscall[tid] {
				inSyscall[tid] = true
				var regs syscall.PtraceRegs
				if err := syscall.PtraceGetRegs(tid, &regs); err == nil {
					nr, fd := regs.Orig_rax, regs.Rdi
					if nr == 1 && fd == 1 {
						outs++
						fmt.Fprintf(os.Stderr, "OUT %d %d\n", outs, count)
					}
					if isIO(nr, fd) {
						count++
						if *n > 0 && count == *n {
							killed = true
							fmt.Fprintf(os.Stderr, "KILLED %d\n", count)
							syscall.Kill(pid, syscall.SIGKILL)
						}
					}
				}
			} else {
				inSyscall[tid] = false
			}
			syscall.PtraceSyscall(tid, 0)
		case sig == syscall.SIGTRAP: // ptrace event (clone etc.)
			syscall.PtraceSyscall(tid, 0)
		case sig == syscall.SIGSTOP && !knownThread(inSyscall, tid):
			// a new thread starts stopped
			inSyscall[tid] = false
			syscall.PtraceSyscall(tid, 0)
		default:
			// deliver the signal
			syscall.PtraceSyscall(tid, int(sig))
		}
		if _, ok := inSyscall[tid]; !ok {
			inSyscall[tid] = false
		}
	}
	if !killed {
		fmt.Fprintf(os.Stderr, "TOTAL %d\n", count)
	}
	if killed {
		os.Exit(9)
	}
	os.Exit(0)
}

func knownThread(m map[int]bool, tid int) bool { _, ok := m[tid]; return ok }
