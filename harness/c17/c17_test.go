// Package c17 decides property C17: serial packets round-trip and
// corruption (1-bit, 2-bit, bursts <= 16 bits) is always detected.
package c17

import (
	"fmt"
	"math"
	"testing"
	"time"

	"github.com/simpleiot/simpleiot/client"
	"github.com/simpleiot/simpleiot/data"
	"pgregory.net/rapid"

	"verif/internal/fix"
	"verif/internal/gen"
	"verif/internal/known"
	"verif/internal/stats"
)

func TestMain(m *testing.M) { fix.Quiet(); stats.Main(m) }

// documented subjects: "", p.<id>, p.<id>.<parent>, phr, ack (<= 16 bytes)
func genDocSubject(t *rapid.T) string {
	id := rapid.StringMatching(`[a-zA-Z0-9-]{1,6}`)
	switch rapid.IntRange(0, 5).Draw(t, "subjKind") {
	case 0:
		return ""
	case 1:
		return "phr"
	case 2:
		return "ack"
	case 3:
		return "p." + id.Draw(t, "id")
	case 4:
		return "p." + id.Draw(t, "id") + "." + id.Draw(t, "parent")
	default:
		// exactly 16 bytes
		return "p." + rapid.StringMatching(`[a-z0-9]{6}`).Draw(t, "id6") + "." + rapid.StringMatching(`[a-z0-9]{7}`).Draw(t, "p7")
	}
}

// any NUL-free subject of up to 16 bytes (round trip only)
func genAnySubject(t *rapid.T) string {
	b := rapid.SliceOfN(rapid.ByteRange(1, 255), 0, 16).Draw(t, "subjBytes")
	return string(b)
}

func genPoint(t *rapid.T) data.Point {
	p := data.Point{
		Type:      gen.Type().Draw(t, "type"),
		Key:       gen.Key().Draw(t, "key"),
		Time:      time.Unix(0, rapid.OneOf(gen.TimeNs(), rapid.Int64()).Draw(t, "time")),
		Text:      gen.Text().Draw(t, "text"),
		Data:      gen.Data().Draw(t, "data"),
		Tombstone: int(rapid.OneOf(rapid.Int32Range(0, 3), rapid.Int32()).Draw(t, "tomb")),
		Origin:    gen.Origin([]string{"n1"}).Draw(t, "origin"),
	}
	switch rapid.IntRange(0, 2).Draw(t, "vk") {
	case 0:
		p.Value = float64(math.Float32frombits(rapid.Uint32().Draw(t, "v32")))
	case 1:
		p.Value = gen.Float().Draw(t, "v64")
	default:
		p.Value = float64(rapid.IntRange(-1000, 1000).Draw(t, "vint"))
	}
	return p
}

func genPoints(t *rapid.T, max int) data.Points {
	n := rapid.IntRange(0, max).Draw(t, "npoints")
	var ps data.Points
	for i := 0; i < n; i++ {
		ps = append(ps, genPoint(t))
	}
	return ps
}

func samePoints(a, b data.Points) string {
	if len(a) != len(b) {
		return fmt.Sprintf("%d points became %d", len(a), len(b))
	}
	for i := range a {
		x, y := a[i], b[i]
		want32 := float32(x.Value)
		got32 := float32(y.Value)
		switch {
		case x.Type != y.Type:
			return fmt.Sprintf("[%d] type %q != %q", i, x.Type, y.Type)
		case x.Key != y.Key:
			return fmt.Sprintf("[%d] key %q != %q", i, x.Key, y.Key)
		case x.Time.UnixNano() != y.Time.UnixNano():
			return fmt.Sprintf("[%d] time %d != %d", i, x.Time.UnixNano(), y.Time.UnixNano())
		case math.Float32bits(want32) != math.Float32bits(got32) && !(want32 != want32 && got32 != got32):
			return fmt.Sprintf("[%d] value %v (float32 %v) != %v", i, x.Value, want32, y.Value)
		case x.Text != y.Text:
			return fmt.Sprintf("[%d] text %q != %q", i, x.Text, y.Text)
		case string(x.Data) != string(y.Data):
			return fmt.Sprintf("[%d] data %x != %x", i, x.Data, y.Data)
		case x.Tombstone != y.Tombstone:
			return fmt.Sprintf("[%d] tombstone %d != %d", i, x.Tombstone, y.Tombstone)
		case x.Origin != y.Origin:
			return fmt.Sprintf("[%d] origin %q != %q", i, x.Origin, y.Origin)
		}
	}
	return ""
}

func TestPropRoundTrip(t *testing.T) {
	rapid.Check(t, func(t *rapid.T) {
		seq := rapid.Byte().Draw(t, "seq")
		var subject string
		if rapid.Bool().Draw(t, "docSubject") {
			subject = genDocSubject(t)
		} else {
			subject = genAnySubject(t)
		}
		ps := genPoints(t, 8)
		pkt, err := client.SerialEncode(seq, subject, ps)
		if err != nil {
			t.Fatalf("SerialEncode(seq %d, subject %q, %d points): %v", seq, subject, len(ps), err)
		}
		gseq, gsub, payload, err := client.SerialDecode(pkt)
		if err != nil {
			t.Fatalf("SerialDecode of an undamaged packet: %v", err)
		}
		if gseq != seq || gsub != subject {
			t.Fatalf("seq %d subject %q decoded as seq %d subject %q", seq, subject, gseq, gsub)
		}
		if subject != "log" {
			back, err := data.PbDecodeSerialPoints(payload)
			if err != nil {
				t.Fatalf("PbDecodeSerialPoints: %v", err)
			}
			if d := samePoints(ps, back); d != "" {
				t.Fatalf("serial round trip (subject %q): %s", subject, d)
			}
		}
		nt := len(ps) >= 2 && len(subject) >= 15
		stats.Case(nt, stats.Digest(seq, subject, fmt.Sprint(ps)), fmt.Sprintf("subjectLen%d", len(subject)/4*4))
		if nt && stats.WantSample() {
			stats.Sample(map[string]any{"seq": seq, "subject": subject, "points": len(ps), "packet_bytes": len(pkt)})
		}
	})
}

// ---------------------------------------------------------------------------
// corruption: bit i of the packet is bit (i%8) of byte i/8, least significant
// first -- the order bits travel on a UART and the order the (reflected)
// CRC-16/CCITT processes them, so a "burst of b bits" is b consecutive
// positions in that order with both end bits flipped.

type verdict int

const (
	rejected verdict = iota
	sameContent
	differentContent
	asLog // decoded as a "log" packet (no checksum by design)
)

func judge(orig []byte, seq byte, subject string, payload []byte, mutated []byte) verdict {
	gseq, gsub, gpayload, err := client.SerialDecode(mutated)
	if err != nil {
		return rejected
	}
	if gsub == "log" && subject != "log" {
		return asLog
	}
	if gseq == seq && gsub == subject && string(gpayload) == string(payload) {
		return sameContent
	}
	return differentContent
}

type corruptor struct {
	pkt     []byte
	seq     byte
	subject string
	payload []byte
	buf     []byte
	evals   int64
	asLog   int64
}

func newCorruptor(seq byte, subject string, ps data.Points) (*corruptor, error) {
	pkt, err := client.SerialEncode(seq, subject, ps)
	if err != nil {
		return nil, err
	}
	_, _, payload, err := client.SerialDecode(pkt)
	if err != nil {
		return nil, err
	}
	return &corruptor{pkt: pkt, seq: seq, subject: subject, payload: append([]byte{}, payload...), buf: make([]byte, len(pkt))}, nil
}

// try applies the flips and returns a description if the result is delivered
// with different content.
func (c *corruptor) try(flips ...int) string {
	copy(c.buf, c.pkt)
	for _, f := range flips {
		c.buf[f/8] ^= 1 << (f % 8)
	}
	c.evals++
	switch judge(c.pkt, c.seq, c.subject, c.payload, c.buf) {
	case differentContent:
		gseq, gsub, gp, _ := client.SerialDecode(c.buf)
		return fmt.Sprintf("packet %x (seq %d subject %q) with bits %v flipped is delivered as seq %d subject %q payload %x",
			c.pkt, c.seq, c.subject, flips, gseq, gsub, gp)
	case asLog:
		c.asLog++
	}
	return ""
}

// enumerate runs all single-bit, all two-bit and all burst (length 3..16,
// every interior pattern) errors; returns the first violation.
func (c *corruptor) enumerate(full bool, pick func(n int) int) string {
	nbits := len(c.pkt) * 8
	for i := 0; i < nbits; i++ {
		if s := c.try(i); s != "" {
			return s
		}
	}
	if full {
		for i := 0; i < nbits; i++ {
			for j := i + 1; j < nbits; j++ {
				if s := c.try(i, j); s != "" {
					return s
				}
			}
		}
	} else {
		for k := 0; k < 2000; k++ {
			i := pick(nbits)
			j := pick(nbits)
			if i != j {
				if s := c.try(i, j); s != "" {
					return s
				}
			}
		}
	}
	// bursts: length L, start s, interior pattern m over L-2 bits
	flips := make([]int, 0, 16)
	for L := 3; L <= 16; L++ {
		npat := 1 << (L - 2)
		for s := 0; s+L <= nbits; s++ {
			pats := npat
			step := 1
			if !full && npat > 8 {
				step = npat / 8
			}
			for m := 0; m < pats; m += step {
				mm := m
				if !full && step > 1 {
					mm = (m + pick(step)) % npat
				}
				flips = flips[:0]
				flips = append(flips, s)
				for b := 0; b < L-2; b++ {
					if mm&(1<<b) != 0 {
						flips = append(flips, s+1+b)
					}
				}
				flips = append(flips, s+L-1)
				if v := c.try(flips...); v != "" {
					return v
				}
			}
		}
	}
	return ""
}

func TestPropCorruptionDetected(t *testing.T) {
	rapid.Check(t, func(t *rapid.T) {
		seq := rapid.Byte().Draw(t, "seq")
		subject := genDocSubject(t)
		ps := genPoints(t, 3)
		c, err := newCorruptor(seq, subject, ps)
		if err != nil {
			t.Fatalf("encode: %v", err)
		}
		full := len(c.pkt) <= 22
		// sampling positions for long packets come from rapid as one seed per packet
		state := rapid.Uint64().Draw(t, "sampleSeed") | 1
		pick := func(n int) int {
			state ^= state << 13
			state ^= state >> 7
			state ^= state << 17
			return int(state % uint64(n))
		}
		if v := c.enumerate(full, pick); v != "" {
			t.Fatalf("corruption not detected: %s", v)
		}
		if c.asLog > 0 {
			stats.Class("excluded:decodedAsLogPacket", c.asLog)
		}
		cls := "sampledPatterns"
		if full {
			cls = "allPatternsEnumerated"
		}
		stats.Enumerated(c.evals, 0)
		stats.Case(len(ps) >= 2, stats.Digest(seq, subject, fmt.Sprint(ps)), cls)
		if stats.WantSample() {
			stats.Sample(map[string]any{"seq": seq, "subject": subject, "points": len(ps), "packet_bytes": len(c.pkt), "error_patterns_tried": c.evals, "complete": full})
		}
	})
}

// TestEnumHeaderOnly enumerates every error pattern of the stated classes on
// header-only packets (no points: acks and the initial empty packet) for a
// set of documented subjects and all 256 sequence numbers (thorough) or a
// stride of them (quick).
func TestEnumHeaderOnly(t *testing.T) {
	subjects := []string{"", "ack", "phr", "p.a", "p.abc", "p.abc.def", "p.abcdef.ghijklm"}
	stride := 128
	if stats.Tier() == "thorough" {
		stride = 1
	}
	var evals, packets int64
	for si, subject := range subjects {
		if si%stats.NShards() != stats.Shard()%stats.NShards() && stats.NShards() > 1 {
			continue
		}
		for s := 0; s < 256; s += stride {
			c, err := newCorruptor(byte(s), subject, nil)
			if err != nil {
				t.Fatal(err)
			}
			if v := c.enumerate(true, nil); v != "" {
				t.Fatalf("corruption not detected: %s", v)
			}
			evals += c.evals
			packets++
			if c.asLog > 0 {
				stats.Class("excluded:decodedAsLogPacket", c.asLog)
			}
		}
	}
	stats.Enumerated(evals, packets, "headerOnlyEnumerated")
	if stats.Tier() == "thorough" {
		stats.Exhaustive("every 1-bit, 2-bit and burst<=16 error on header-only packets of 7 documented subjects x all 256 sequence numbers")
	}
	stats.Sample(map[string]any{"enumeration": "header-only packets", "subjects": subjects, "seq_stride": stride, "error_patterns_tried": evals})
}

// The one way around the checksum: an error that turns the subject into
// "log". p.g -> log needs 5 flipped bits within a 13-bit span, i.e. a burst
// the property covers. Pinned as known finding C17-F1 (see DESIGN.md).
func TestKnownBurstIntoLogSubject(t *testing.T) {
	c, err := newCorruptor(7, "p.g", data.Points{{Type: "v", Time: time.Unix(1, 0), Value: 1}})
	if err != nil {
		t.Fatal(err)
	}
	copy(c.buf, c.pkt)
	c.buf[1] = 'l'
	c.buf[2] = 'o'
	v := judge(c.pkt, c.seq, c.subject, c.payload, c.buf)
	known.Report(t, "C17", "C17-F1", "a burst of <=16 bits that rewrites the subject into \"log\" (e.g. p.g -> log) is delivered without checksum verification",
		v == asLog || v == differentContent, fmt.Sprintf("verdict %d", v))
}
