package c18

// Frame level: the same requests, and malformed frames, through Server.Listen
// over both framings. ProcessRequest is decided against the specification by
// TestPropServer; here the oracle is differential: what Listen writes must be
// the framing (computed here, not by the transport) of what ProcessRequest
// returns for the PDU this file parses out of the frame, nothing may be
// written for a frame that is not a request for this unit, the register file
// behind Listen must stay equal to the one behind the direct call, and Listen
// must not panic or stop answering.

import (
	"bytes"
	"encoding/binary"
	"errors"
	"fmt"
	"net"
	"runtime/debug"
	"sort"
	"testing"
	"time"

	"github.com/simpleiot/simpleiot/modbus"
	"pgregory.net/rapid"

	"verif/internal/stats"
)

type stopListen struct{}

// port is the server's side of a packet pipe: a Read returns one packet (what
// does not fit the caller's buffer stays for the next Read, as on a stream).
type port struct {
	in   chan []byte
	out  chan []byte
	rest []byte
	stop chan struct{}
}

type memAddr struct{}

func (memAddr) Network() string { return "mem" }
func (memAddr) String() string  { return "mem" }

func (p *port) Read(b []byte) (int, error) {
	if len(p.rest) == 0 {
		select {
		case p.rest = <-p.in:
		case <-p.stop:
			panic(stopListen{}) // ends the Listen goroutine at once (the regular exit sleeps 100 ms)
		}
	}
	n := copy(b, p.rest)
	p.rest = p.rest[n:]
	return n, nil
}
func (p *port) Write(b []byte) (int, error) {
	select {
	case p.out <- append([]byte{}, b...):
		return len(b), nil
	case <-p.stop:
		return 0, errors.New("closed")
	}
}
func (p *port) Close() error                     { return nil }
func (p *port) LocalAddr() net.Addr              { return memAddr{} }
func (p *port) RemoteAddr() net.Addr             { return memAddr{} }
func (p *port) SetDeadline(time.Time) error      { return nil }
func (p *port) SetReadDeadline(time.Time) error  { return nil }
func (p *port) SetWriteDeadline(time.Time) error { return nil }

// crc16 is the Modbus RTU CRC (reflected 0xA001, initial 0xFFFF, low byte first on the wire).
func crc16(b []byte) uint16 {
	crc := uint16(0xffff)
	for _, x := range b {
		crc ^= uint16(x)
		for i := 0; i < 8; i++ {
			if crc&1 != 0 {
				crc = crc>>1 ^ 0xa001
			} else {
				crc >>= 1
			}
		}
	}
	return crc
}

func rtuFrame(body []byte) []byte {
	c := crc16(body)
	return append(append([]byte{}, body...), byte(c), byte(c>>8))
}

func tcpFrame(tx uint16, id byte, pdu []byte) []byte {
	f := make([]byte, 7, 7+len(pdu))
	binary.BigEndian.PutUint16(f, tx)
	binary.BigEndian.PutUint16(f[4:], uint16(len(pdu)+1))
	f[6] = id
	return append(f, pdu...)
}

type listener struct {
	kind     string
	id       byte
	p        *port
	panicked chan string
	direct   *modbus.Regs // register file behind the direct ProcessRequest calls
	served   *modbus.Regs // register file behind Listen
	m        *refModel
	tx       uint16
}

func startListener(kind string, id byte, m *refModel) *listener {
	l := &listener{kind: kind, id: id, m: m, direct: buildRegs(m), served: buildRegs(m),
		p:        &port{in: make(chan []byte, 4), out: make(chan []byte, 64), stop: make(chan struct{})},
		panicked: make(chan string, 1)}
	var tr modbus.Transport
	if kind == "rtu" {
		tr = modbus.NewRTU(l.p)
	} else {
		tr = modbus.NewTCP(l.p, time.Second, modbus.TransportServer)
	}
	srv := modbus.NewServer(id, tr, l.served, 0)
	go func() {
		defer func() {
			if r := recover(); r != nil {
				if _, ok := r.(stopListen); !ok {
					l.panicked <- fmt.Sprintf("%v\n%s", r, debug.Stack())
				}
			}
		}()
		srv.Listen(func(error) {}, func() {}, func() {})
	}()
	return l
}

// frame builds a well-formed frame for unit id carrying fc+d, cut to the largest ADU of the framing.
func (l *listener) frame(id, fc byte, d []byte) (frame []byte, pdu []byte) {
	pdu = append([]byte{fc}, d...)
	if len(pdu) > 253 {
		pdu = pdu[:253]
	}
	if l.kind == "rtu" {
		return rtuFrame(append([]byte{id}, pdu...)), pdu
	}
	l.tx = l.tx*31 + 0x1235
	return tcpFrame(l.tx, id, pdu), pdu
}

// expected gives the bytes Listen must write for a raw frame (nil = nothing).
func (l *listener) expected(raw []byte) ([]byte, error) {
	var id byte
	var pdu []byte
	var tx uint16
	if l.kind == "rtu" {
		if len(raw) < 4 || crc16(raw[:len(raw)-2]) != uint16(raw[len(raw)-2])|uint16(raw[len(raw)-1])<<8 {
			return nil, nil
		}
		id, pdu = raw[0], raw[1:len(raw)-2]
	} else {
		if len(raw) < 9 {
			return nil, nil
		}
		tx, id, pdu = binary.BigEndian.Uint16(raw), raw[6], raw[7:]
	}
	if id != l.id {
		return nil, nil
	}
	req := modbus.PDU{FunctionCode: modbus.FunctionCode(pdu[0]), Data: append([]byte{}, pdu[1:]...)}
	var resp modbus.PDU
	var err error
	var pan any
	func() {
		defer func() { pan = recover() }()
		_, resp, err = req.ProcessRequest(l.direct)
	}()
	if pan != nil {
		return nil, fmt.Errorf("ProcessRequest panicked: %v", pan)
	}
	if err != nil {
		return nil, nil
	}
	rp := append([]byte{byte(resp.FunctionCode)}, resp.Data...)
	if l.kind == "rtu" {
		return rtuFrame(append([]byte{l.id}, rp...)), nil
	}
	return tcpFrame(tx, l.id, rp), nil
}

func (l *listener) await(what string) ([]byte, error) {
	select {
	case r := <-l.p.out:
		return r, nil
	case s := <-l.panicked:
		return nil, fmt.Errorf("%s: Server.Listen panicked: %s", what, s)
	case <-time.After(120 * time.Second):
		return nil, fmt.Errorf("%s: Server.Listen wrote nothing for 120 s although a well-formed request for its unit is pending (hang)", what)
	}
}

// exchange sends one frame followed by a probe request and checks everything written up to the probe's reply.
func (l *listener) exchange(raw []byte) error {
	what := fmt.Sprintf("%s frame %.40x (%d bytes)", l.kind, raw, len(raw))
	want, err := l.expected(raw)
	if err != nil {
		return fmt.Errorf("%s: %v", what, err)
	}
	probe, _ := l.frame(l.id, 3, []byte{0, 0, 0, 1})
	wantProbe, err := l.expected(probe)
	if err != nil || wantProbe == nil {
		return fmt.Errorf("probe: no expectation (%v)", err)
	}
	l.p.in <- raw
	l.p.in <- probe
	if want != nil {
		got, err := l.await(what)
		if err != nil {
			return err
		}
		if !bytes.Equal(got, want) {
			if bytes.Equal(got, wantProbe) {
				return fmt.Errorf("%s: not answered; the framing of ProcessRequest's response is %x", what, want)
			}
			return fmt.Errorf("%s: Listen wrote %x, the framing of ProcessRequest's response is %x", what, got, want)
		}
	}
	got, err := l.await(what + " then probe")
	if err != nil {
		return err
	}
	if !bytes.Equal(got, wantProbe) {
		if want == nil {
			return fmt.Errorf("%s: is not a request for unit %d, yet Listen wrote %x (the probe that follows is answered %x)", what, l.id, got, wantProbe)
		}
		return fmt.Errorf("%s: the probe after it was answered %x, expected %x", what, got, wantProbe)
	}
	a, err := readBack(l.direct, l.m)
	if err != nil {
		return err
	}
	b, err := readBack(l.served, l.m)
	if err != nil {
		return err
	}
	if s := diffRegs(b, a, nil); s != "" {
		return fmt.Errorf("%s: behind Listen %s (value behind the direct call)", what, s)
	}
	return nil
}

func (l *listener) finish() error {
	close(l.p.stop)
	select {
	case r := <-l.p.out:
		return fmt.Errorf("%s: Listen wrote one packet more than there were requests: %x", l.kind, r)
	case s := <-l.panicked:
		return fmt.Errorf("Server.Listen panicked: %s", s)
	default:
		return nil
	}
}

func genFrame(t *rapid.T, l *listener) (raw []byte, class string) {
	other := l.id ^ 0x55
	if other == 0 {
		other = 9
	}
	addrs := make([]int, 0, len(l.m.regs))
	for a := range l.m.regs {
		addrs = append(addrs, int(a))
	}
	sort.Ints(addrs)
	switch k := rapid.IntRange(0, 11).Draw(t, "frameKind"); {
	case k == 0: // largest legal writes: the ADU fills the framing's maximum
		d := make([]byte, 5)
		binary.BigEndian.PutUint16(d, uint16(rapid.SampledFrom([]int{addrs[0], 0, addrs[0] * 16 & 0xffff}).Draw(t, "maxAddr")))
		fc, n := byte(16), 0
		if rapid.Bool().Draw(t, "maxCoils") {
			fc = 15
			q := rapid.IntRange(1930, 1968).Draw(t, "maxQtyCoils")
			binary.BigEndian.PutUint16(d[2:], uint16(q))
			n = (q + 7) / 8
		} else {
			q := rapid.IntRange(119, 123).Draw(t, "maxQtyRegs")
			binary.BigEndian.PutUint16(d[2:], uint16(q))
			n = q * 2
		}
		d[4] = byte(n)
		fill := rapid.Byte().Draw(t, "maxFill")
		for i := 0; i < n; i++ {
			d = append(d, fill^byte(i*5))
		}
		raw, _ = l.frame(l.id, fc, d)
		return raw, "largest write"
	case k == 1: // another unit's request
		fc, d := genRequest(t, l.m)
		raw, _ = l.frame(other, fc, d)
		return raw, "other unit"
	case k == 2 && l.kind == "rtu": // damaged check sum
		fc, d := genRequest(t, l.m)
		raw, _ = l.frame(l.id, fc, d)
		i := rapid.IntRange(0, len(raw)-1).Draw(t, "flipAt")
		raw[i] ^= 1 << rapid.IntRange(0, 7).Draw(t, "flipBit")
		return raw, "bad crc"
	case k == 3 && l.kind == "rtu": // fewer than four bytes, check sum right (FF FF is what line noise looks like)
		body := rapid.SliceOfN(rapid.SampledFrom([]byte{l.id, 0, 1, 3, 0xff}), 0, 1).Draw(t, "shortBody")
		return rtuFrame(body), "short frame, right crc"
	case k == 3: // TCP: shorter than a header
		return rapid.SliceOfN(rapid.Byte(), 0, 7).Draw(t, "tcpShort"), "short frame"
	case k == 4: // a few arbitrary bytes, as a frame
		b := rapid.SliceOfN(rapid.Byte(), 0, 6).Draw(t, "noise")
		if l.kind == "rtu" {
			if rapid.Bool().Draw(t, "noiseCrc") {
				return rtuFrame(b), "noise, right crc"
			}
			return b, "noise"
		}
		if len(b) == 1 { // 8 bytes: a header and a function code without data; what is due is not settled here
			b = b[:0]
		}
		return tcpFrame(rapid.Uint16().Draw(t, "noiseTx"), l.id, b)[:7+len(b)], "noise"
	}
	fc, d := genRequest(t, l.m)
	raw, _ = l.frame(l.id, fc, d)
	return raw, "request"
}

func TestPropListen(t *testing.T) {
	rapid.Check(t, func(t *rapid.T) {
		m := genMap(t)
		kind := rapid.SampledFrom([]string{"rtu", "tcp"}).Draw(t, "framing")
		id := byte(rapid.IntRange(1, 247).Draw(t, "unit"))
		l := startListener(kind, id, m)
		n := rapid.IntRange(1, 8).Draw(t, "nframes")
		cls := map[string]bool{}
		nt := false
		var hist []string
		for i := 0; i < n; i++ {
			raw, c := genFrame(t, l)
			hist = append(hist, fmt.Sprintf("%s:%.20x/%d", c, raw, len(raw)))
			cls[kind+" "+c] = true
			nt = nt || c != "request" || len(raw) >= 250
			if err := l.exchange(raw); err != nil {
				close(l.p.stop)
				t.Fatalf("unit %d, map of %d registers, frame %d (%s): %v", id, len(m.regs), i, c, err)
			}
		}
		if err := l.finish(); err != nil {
			t.Fatalf("unit %d: %v", id, err)
		}
		var cl []string
		for c := range cls {
			cl = append(cl, c)
		}
		sort.Strings(cl)
		stats.Case(nt, stats.Digest(kind, fmt.Sprint(hist)), cl...)
		if nt && stats.WantSample() {
			stats.Sample(map[string]any{"framing": kind, "unit": id, "registers": len(m.regs), "frames": hist})
		}
	})
}
