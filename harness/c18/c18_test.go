// Package c18 decides property C18: the Modbus server answers every request
// safely and per specification (normal response or exception, registers
// changed exactly as addressed, unchanged on a refused read / single write).
package c18

import (
	"bytes"
	"encoding/binary"
	"fmt"
	"runtime/debug"
	"sort"
	"testing"

	"github.com/simpleiot/simpleiot/modbus"
	"pgregory.net/rapid"

	"verif/internal/fix"
	"verif/internal/stats"
)

func TestMain(m *testing.M) { fix.Quiet(); stats.Main(m) }

// ---------------------------------------------------------------------------
// reference server over map[uint16]uint16 (coil n = bit n%16 of register n/16)

type validator struct {
	name string
	ok   func(uint16) bool
}

var validators = []validator{
	{"never", func(uint16) bool { return false }},
	{"even", func(v uint16) bool { return v%2 == 0 }},
	{"<1000", func(v uint16) bool { return v < 1000 }},
	{"always", func(uint16) bool { return true }},
}

type refModel struct {
	regs map[uint16]uint16
	val  map[uint16]int // index into validators
}

func (m *refModel) clone() map[uint16]uint16 {
	c := make(map[uint16]uint16, len(m.regs))
	for k, v := range m.regs {
		c[k] = v
	}
	return c
}

func (m *refModel) valid(addr, v uint16) bool {
	if i, ok := m.val[addr]; ok {
		return validators[i].ok(v)
	}
	return true
}

type expect struct {
	normal     []byte // expected response data (function code = request's); nil if no normal response is acceptable
	echoPrefix bool   // FC5/6 with surplus request bytes: compare only the first 4 bytes of the echo
	exc        map[byte]bool
	goErr      bool
	apply      map[uint16]uint16 // register values after a normal response
	resync     bool              // multi-write: after an exception (or validator-dependent result) take the real content
	touched    map[uint16]bool   // registers a multi-write may have changed
	nontrivial bool
	class      string
}

func excSet(codes ...byte) map[byte]bool {
	s := map[byte]bool{}
	for _, c := range codes {
		s[c] = true
	}
	return s
}

const (
	excFunction = 1
	excAddress  = 2
	excValue    = 3
)

// minimal request data length (without the function code)
var minData = map[byte]int{1: 4, 2: 4, 3: 4, 4: 4, 5: 4, 6: 4, 15: 6, 16: 7, 22: 6, 23: 11, 24: 2}

func (m *refModel) reference(fc byte, d []byte) expect {
	e := expect{exc: map[byte]bool{}}
	if n, ok := minData[fc]; ok && len(d) < n {
		// shorter than the fixed header: no response (error) or any exception
		e.goErr = true
		e.exc = excSet(excFunction, excAddress, excValue)
		e.class = "short"
		return e
	}
	be := binary.BigEndian
	regsPresent := func(first, count int) bool {
		for i := 0; i < count; i++ {
			a := first + i
			if a > 0xffff {
				return false
			}
			if _, ok := m.regs[uint16(a)]; !ok {
				return false
			}
		}
		return true
	}
	coilRegsPresent := func(first, count int) bool {
		for i := 0; i < count; i++ {
			n := first + i
			if n > 0xffff {
				return false
			}
			if _, ok := m.regs[uint16(n/16)]; !ok {
				return false
			}
		}
		return true
	}
	surplus := func(n int) {
		if len(d) > n {
			// request longer than the function defines: malformed, may also be refused
			e.exc[excValue] = true
			e.class += "+surplus"
		}
	}
	switch fc {
	case 1, 2:
		a, q := int(be.Uint16(d)), int(be.Uint16(d[2:]))
		badQ := q < 1 || q > 2000
		badA := a+q > 0x10000 || !coilRegsPresent(a, q)
		e.class = "readBits"
		e.nontrivial = q >= 2000 || (badA && !badQ && q > 1)
		switch {
		case badQ && badA:
			e.exc = excSet(excValue, excAddress)
		case badQ:
			e.exc = excSet(excValue)
		case badA:
			e.exc = excSet(excAddress)
		default:
			n := (q + 7) / 8
			out := make([]byte, 1+n)
			out[0] = byte(n)
			for i := 0; i < q; i++ {
				c := a + i
				if m.regs[uint16(c/16)]&(1<<(c%16)) != 0 {
					out[1+i/8] |= 1 << (i % 8)
				}
			}
			e.normal = out
		}
		surplus(4)
	case 3, 4:
		a, q := int(be.Uint16(d)), int(be.Uint16(d[2:]))
		badQ := q < 1 || q > 125
		badA := a+q > 0x10000 || !regsPresent(a, q)
		e.class = "readRegs"
		e.nontrivial = q >= 125 || (badA && !badQ && q > 1)
		switch {
		case badQ && badA:
			e.exc = excSet(excValue, excAddress)
		case badQ:
			e.exc = excSet(excValue)
		case badA:
			e.exc = excSet(excAddress)
		default:
			out := make([]byte, 1+2*q)
			out[0] = byte(2 * q)
			for i := 0; i < q; i++ {
				be.PutUint16(out[1+2*i:], m.regs[uint16(a+i)])
			}
			e.normal = out
		}
		surplus(4)
	case 5:
		a, v := int(be.Uint16(d)), be.Uint16(d[2:])
		e.class = "writeCoil"
		badV := v != 0 && v != 0xff00
		old, present := m.regs[uint16(a/16)]
		nv := old
		if v == 0xff00 {
			nv |= 1 << (a % 16)
		} else {
			nv &^= 1 << (a % 16)
		}
		if present && !badV && !m.valid(uint16(a/16), nv) {
			badV = true
		}
		switch {
		case badV && !present:
			e.exc = excSet(excValue, excAddress)
		case badV:
			e.exc = excSet(excValue)
		case !present:
			e.exc = excSet(excAddress)
		default:
			e.normal = append([]byte{}, d[:4]...)
			e.echoPrefix = len(d) > 4
			e.apply = m.clone()
			e.apply[uint16(a/16)] = nv
		}
		surplus(4)
	case 6:
		a, v := be.Uint16(d), be.Uint16(d[2:])
		e.class = "writeReg"
		_, present := m.regs[a]
		badV := present && !m.valid(a, v)
		switch {
		case !present:
			e.exc = excSet(excAddress)
		case badV:
			e.exc = excSet(excValue)
		default:
			e.normal = append([]byte{}, d[:4]...)
			e.echoPrefix = len(d) > 4
			e.apply = m.clone()
			e.apply[a] = v
		}
		surplus(4)
	case 15:
		a, q := int(be.Uint16(d)), int(be.Uint16(d[2:]))
		e.class = "writeCoils"
		e.resync = true
		e.touched = map[uint16]bool{}
		badQ := q < 1 || q > 1968
		n := (q + 7) / 8
		badLen := !badQ && len(d) != 5+n
		badA := a+q > 0x10000 || !coilRegsPresent(a, q)
		e.nontrivial = q >= 1968 || (badA && !badQ && !badLen && q > 1)
		if !badQ {
			for i := 0; i < q && a+i <= 0xffff; i++ {
				e.touched[uint16((a+i)/16)] = true
			}
		}
		switch {
		case badQ || badLen:
			e.exc = excSet(excValue)
			if badA {
				e.exc[excAddress] = true
			}
		case badA:
			e.exc = excSet(excAddress)
			for r := range e.touched {
				if _, ok := m.val[r]; ok {
					// a validator may refuse an earlier coil before the absent one is reached
					e.exc[excValue] = true
				}
			}
		default:
			after := m.clone()
			hasValidator := false
			for i := 0; i < q; i++ {
				c := a + i
				r := uint16(c / 16)
				if _, ok := m.val[r]; ok {
					hasValidator = true
				}
				if d[5+i/8]>>(i%8)&1 == 1 {
					after[r] |= 1 << (c % 16)
				} else {
					after[r] &^= 1 << (c % 16)
				}
			}
			out := make([]byte, 4)
			copy(out, d[:4])
			e.normal = out
			e.apply = after
			if hasValidator {
				// a validator sees intermediate register values while the coils
				// are written one by one; either outcome is legal
				e.exc = excSet(excValue)
				e.apply = nil
			}
			if int(d[4]) != n {
				// inconsistent byte-count field: may be refused or processed
				e.exc[excValue] = true
				e.class += "+byteCountField"
			}
		}
	case 16:
		a, q := int(be.Uint16(d)), int(be.Uint16(d[2:]))
		e.class = "writeRegs"
		e.resync = true
		e.touched = map[uint16]bool{}
		badQ := q < 1 || q > 123
		badLen := !badQ && len(d) != 5+2*q
		badA := a+q > 0x10000 || !regsPresent(a, q)
		e.nontrivial = q >= 123 || (badA && !badQ && !badLen && q > 1)
		if !badQ {
			for i := 0; i < q && a+i <= 0xffff; i++ {
				e.touched[uint16(a+i)] = true
			}
		}
		switch {
		case badQ || badLen:
			e.exc = excSet(excValue)
			if badA {
				e.exc[excAddress] = true
			}
		case badA:
			e.exc = excSet(excAddress)
			for i := 0; i < q && a+i <= 0xffff; i++ {
				if _, ok := m.regs[uint16(a+i)]; ok && !m.valid(uint16(a+i), be.Uint16(d[5+2*i:])) {
					// two exception conditions coincide: either code
					e.exc[excValue] = true
				}
			}
		default:
			after := m.clone()
			rejected := false
			for i := 0; i < q; i++ {
				v := be.Uint16(d[5+2*i:])
				if !m.valid(uint16(a+i), v) {
					rejected = true
				}
				after[uint16(a+i)] = v
			}
			if rejected {
				e.exc = excSet(excValue)
			} else {
				out := make([]byte, 4)
				copy(out, d[:4])
				e.normal = out
				e.apply = after
				if int(d[4]) != 2*q {
					e.exc[excValue] = true
					e.class += "+byteCountField"
				}
			}
		}
	default:
		e.class = "unsupportedFunction"
		e.exc = excSet(excFunction)
	}
	return e
}

// ---------------------------------------------------------------------------

func buildRegs(m *refModel) *modbus.Regs {
	r := &modbus.Regs{}
	addrs := make([]int, 0, len(m.regs))
	for a := range m.regs {
		addrs = append(addrs, int(a))
	}
	sort.Ints(addrs)
	for _, a := range addrs {
		r.AddReg(a, 1)
		if err := r.WriteReg(a, m.regs[uint16(a)]); err != nil {
			panic(err)
		}
	}
	for a, i := range m.val {
		if err := r.AddRegValueValidator(int(a), validators[i].ok); err != nil {
			panic(err)
		}
	}
	return r
}

func genMap(t *rapid.T) *refModel {
	m := &refModel{regs: map[uint16]uint16{}, val: map[uint16]int{}}
	addRange := func(from, n int) {
		for i := 0; i < n && from+i <= 0xffff; i++ {
			m.regs[uint16(from+i)] = 0
		}
	}
	switch rapid.IntRange(0, 5).Draw(t, "mapKind") {
	case 5: // the registers behind the upper half and the top of the coil space (coil n = bit n%16 of register n/16)
		addRange(0, 20)
		addRange(2040, 24)
		addRange(4080, 16)
	case 0: // dense from 0
		addRange(0, rapid.SampledFrom([]int{1, 8, 125, 126, 130, 140, 260}).Draw(t, "dense"))
	case 1: // dense at the top of the address space
		n := rapid.SampledFrom([]int{1, 16, 126, 130, 300}).Draw(t, "topN")
		addRange(0x10000-n, n)
	case 2: // sparse
		for i := rapid.IntRange(1, 12).Draw(t, "nsparse"); i > 0; i-- {
			addRange(rapid.IntRange(0, 300).Draw(t, "sparseAt"), rapid.IntRange(1, 4).Draw(t, "run"))
		}
	case 3: // dense with a gap
		addRange(0, 140)
		delete(m.regs, uint16(rapid.IntRange(0, 139).Draw(t, "gap")))
	default: // bottom and top
		addRange(0, 130)
		addRange(0xff80, 128)
	}
	contents := rapid.IntRange(0, 2).Draw(t, "contents")
	salt := rapid.Uint16().Draw(t, "salt")
	for a := range m.regs {
		switch contents {
		case 0:
			m.regs[a] = a*2654 + salt | 1
		case 1:
			m.regs[a] = 0xffff
		default:
			m.regs[a] = salt ^ a
		}
	}
	// validators on a few registers
	if rapid.IntRange(0, 2).Draw(t, "validators") == 0 {
		addrs := make([]int, 0, len(m.regs))
		for a := range m.regs {
			addrs = append(addrs, int(a))
		}
		sort.Ints(addrs)
		for i := rapid.IntRange(1, 3).Draw(t, "nval"); i > 0; i-- {
			m.val[uint16(rapid.SampledFrom(addrs).Draw(t, "valAddr"))] = rapid.IntRange(0, len(validators)-1).Draw(t, "valKind")
		}
	}
	return m
}

var edgeU16 = []int{0, 1, 2, 7, 8, 9, 15, 16, 17, 122, 123, 124, 125, 126, 127, 128, 255, 256, 1967, 1968, 1969, 1999, 2000, 2001, 2040, 2041, 2047, 2048,
	0x7fff, 0x8000, 0x8001, 0xff00, 0xfffe, 0xffff, 0xff80, 0xffc0, 0xfff0, 0x7ff0, 0x7ff8, 0x8010, 0xff00 + 0x88, 2040 * 16, 2041*16 + 3, 4080 * 16, 4095*16 + 15}

func genU16(t *rapid.T, label string) uint16 {
	if rapid.Bool().Draw(t, label+"Edge") {
		return uint16(rapid.SampledFrom(edgeU16).Draw(t, label))
	}
	if rapid.Bool().Draw(t, label+"Low") {
		return uint16(rapid.IntRange(0, 300).Draw(t, label+"L"))
	}
	return rapid.Uint16().Draw(t, label+"R")
}

func genRequest(t *rapid.T, m *refModel) (byte, []byte) {
	be := binary.BigEndian
	switch rapid.IntRange(0, 11).Draw(t, "reqKind") {
	case 0: // raw
		fc := rapid.Byte().Draw(t, "rawFC")
		return fc, rapid.SliceOfN(rapid.Byte(), 0, 12).Draw(t, "rawData")
	case 1: // unsupported / odd function codes with plausible data
		fc := rapid.SampledFrom([]byte{0, 7, 8, 11, 17, 20, 22, 23, 24, 43, 0x80, 0x81, 0x83, 0xff}).Draw(t, "oddFC")
		return fc, rapid.SliceOfN(rapid.Byte(), 0, 14).Draw(t, "oddData")
	}
	fc := rapid.SampledFrom([]byte{1, 2, 3, 4, 5, 6, 15, 16, 1, 3, 15, 16}).Draw(t, "fc")
	a := genU16(t, "addr")
	d := make([]byte, 4)
	be.PutUint16(d, a)
	switch fc {
	case 1, 2, 3, 4:
		be.PutUint16(d[2:], genU16(t, "qty"))
	case 5:
		v := rapid.SampledFrom([]uint16{0, 0xff00, 0xff00, 0, 1, 0x00ff, 0xffff, 0xff01}).Draw(t, "coilValue")
		be.PutUint16(d[2:], v)
	case 6:
		be.PutUint16(d[2:], genU16(t, "value"))
	case 15, 16:
		q := genU16(t, "qty")
		be.PutUint16(d[2:], q)
		n := (int(q) + 7) / 8
		if fc == 16 {
			n = int(q) * 2
		}
		payload := n
		switch rapid.IntRange(0, 7).Draw(t, "lenKind") {
		case 0:
			payload = n + 1
		case 1:
			if n > 0 {
				payload = n - 1
			}
		case 2:
			payload = rapid.IntRange(0, 8).Draw(t, "anyLen")
		}
		if payload > 300 {
			payload = 300 // longer frames cannot exist; the length no longer matches anyway
		}
		bc := byte(n)
		if rapid.IntRange(0, 5).Draw(t, "bcKind") == 0 {
			bc = rapid.Byte().Draw(t, "byteCount")
		}
		d = append(d, bc)
		fill := rapid.Byte().Draw(t, "fill")
		for i := 0; i < payload; i++ {
			d = append(d, fill^byte(i*7))
		}
	}
	if rapid.IntRange(0, 15).Draw(t, "truncate") == 0 && len(d) > 0 {
		d = d[:rapid.IntRange(0, len(d)-1).Draw(t, "cutAt")]
	} else if fc <= 6 && rapid.IntRange(0, 15).Draw(t, "surplus") == 0 {
		d = append(d, rapid.SliceOfN(rapid.Byte(), 1, 3).Draw(t, "extra")...)
	}
	return fc, d
}

// readBack returns the real content of the register file for the model's addresses.
func readBack(r *modbus.Regs, m *refModel) (map[uint16]uint16, error) {
	out := map[uint16]uint16{}
	for a := range m.regs {
		v, err := r.ReadReg(int(a))
		if err != nil {
			return nil, fmt.Errorf("register %d vanished: %v", a, err)
		}
		out[a] = v
	}
	return out, nil
}

func diffRegs(got, want map[uint16]uint16, only map[uint16]bool) string {
	var addrs []int
	for a := range want {
		addrs = append(addrs, int(a))
	}
	sort.Ints(addrs)
	for _, a := range addrs {
		if only != nil && only[uint16(a)] {
			continue
		}
		if got[uint16(a)] != want[uint16(a)] {
			return fmt.Sprintf("register %d holds %#04x, expected %#04x", a, got[uint16(a)], want[uint16(a)])
		}
	}
	return ""
}

// step runs one request against the real server and the reference.
func step(m *refModel, regs *modbus.Regs, fc byte, d []byte) (expect, error) {
	e := m.reference(fc, d)
	req := modbus.PDU{FunctionCode: modbus.FunctionCode(fc), Data: append([]byte{}, d...)}
	var changed bool
	var resp modbus.PDU
	var err error
	var panicked any
	var stack string
	func() {
		defer func() {
			if r := recover(); r != nil {
				panicked, stack = r, string(debug.Stack())
			}
		}()
		changed, resp, err = req.ProcessRequest(regs)
	}()
	_ = changed
	desc := fmt.Sprintf("request fc=%d data=%x (%s)", fc, d, e.class)
	if panicked != nil {
		return e, fmt.Errorf("%s: ProcessRequest panicked: %v\n%s", desc, panicked, stack)
	}
	real, rerr := readBack(regs, m)
	if rerr != nil {
		return e, fmt.Errorf("%s: %v", desc, rerr)
	}
	switch {
	case err != nil:
		if !e.goErr {
			return e, fmt.Errorf("%s: no response (error %q); expected %s", desc, err, e.describe())
		}
		if s := diffRegs(real, m.regs, nil); s != "" {
			return e, fmt.Errorf("%s: refused without response but %s", desc, s)
		}
	case byte(resp.FunctionCode) == fc|0x80 && fc&0x80 == 0 || (fc&0x80 != 0 && byte(resp.FunctionCode) == fc && len(resp.Data) == 1 && e.normal == nil):
		if len(resp.Data) != 1 {
			return e, fmt.Errorf("%s: exception response with %d data bytes", desc, len(resp.Data))
		}
		if !e.exc[resp.Data[0]] {
			return e, fmt.Errorf("%s: answered with exception %d; expected %s", desc, resp.Data[0], e.describe())
		}
		if e.resync {
			// multi-write refused midway: only addressed registers may differ
			if s := diffRegs(real, m.regs, e.touched); s != "" {
				return e, fmt.Errorf("%s: exception %d but a register outside the request changed: %s", desc, resp.Data[0], s)
			}
			m.regs = real
		} else if s := diffRegs(real, m.regs, nil); s != "" {
			return e, fmt.Errorf("%s: answered with exception %d but %s", desc, resp.Data[0], s)
		}
	case byte(resp.FunctionCode) == fc:
		if e.normal == nil {
			return e, fmt.Errorf("%s: normal response %x; expected %s", desc, resp.Data, e.describe())
		}
		got := resp.Data
		if e.echoPrefix && len(got) >= 4 {
			got = got[:4]
		}
		if !bytes.Equal(got, e.normal) {
			return e, fmt.Errorf("%s: response data %x, specification gives %x", desc, resp.Data, e.normal)
		}
		want := m.regs
		if e.apply != nil {
			want = e.apply
		}
		if e.resync && e.apply == nil {
			// validator-dependent multi-write: registers outside the request unchanged
			if s := diffRegs(real, m.regs, e.touched); s != "" {
				return e, fmt.Errorf("%s: %s", desc, s)
			}
			m.regs = real
		} else {
			if s := diffRegs(real, want, nil); s != "" {
				return e, fmt.Errorf("%s: acknowledged, but %s", desc, s)
			}
			m.regs = want
		}
	default:
		return e, fmt.Errorf("%s: response function code %d", desc, resp.FunctionCode)
	}
	return e, nil
}

func (e expect) describe() string {
	s := ""
	if e.normal != nil {
		s += fmt.Sprintf("normal response %x", e.normal)
	}
	if len(e.exc) > 0 {
		var c []int
		for k := range e.exc {
			c = append(c, int(k))
		}
		sort.Ints(c)
		if s != "" {
			s += " or "
		}
		s += fmt.Sprintf("exception %v", c)
	}
	if e.goErr {
		s += " or no response"
	}
	return s
}

func TestPropServer(t *testing.T) {
	rapid.Check(t, func(t *rapid.T) {
		m := genMap(t)
		regs := buildRegs(m)
		n := rapid.IntRange(1, 12).Draw(t, "nreq")
		nt := false
		cls := map[string]bool{}
		var hist []string
		for i := 0; i < n; i++ {
			fc, d := genRequest(t, m)
			e, err := step(m, regs, fc, d)
			hist = append(hist, fmt.Sprintf("fc=%d data=%.24x", fc, d))
			if err != nil {
				t.Fatalf("map of %d registers (validators %v), request %d: %v", len(m.regs), m.val, i, err)
			}
			nt = nt || e.nontrivial
			cls[e.class] = true
		}
		var cl []string
		for c := range cls {
			cl = append(cl, c)
		}
		sort.Strings(cl)
		stats.Case(nt, stats.Digest(len(m.regs), fmt.Sprint(hist)), cl...)
		if nt && stats.WantSample() {
			stats.Sample(map[string]any{"registers": len(m.regs), "validators": len(m.val), "requests": hist})
		}
	})
}

// FuzzServer: (map selector, request bytes) through the same oracle.
func FuzzServer(f *testing.F) {
	f.Add(byte(0), byte(1), []byte{0, 0, 0, 16})
	f.Add(byte(1), byte(3), []byte{0xff, 0x80, 0, 125})
	f.Add(byte(2), byte(15), []byte{0, 0, 0, 9, 2, 0xff, 0x01})
	f.Add(byte(0), byte(16), []byte{0, 1, 0, 2, 4, 1, 2, 3, 4})
	f.Add(byte(1), byte(1), []byte{0, 0, 0x07, 0xf9})
	f.Add(byte(2), byte(3), []byte{0, 0, 0x80, 0x00})
	f.Add(byte(0), byte(5), []byte{0, 3, 0xff, 0})
	f.Add(byte(3), byte(6), []byte{0, 3, 0x12, 0x34})
	f.Add(byte(0), byte(99), []byte{})
	f.Fuzz(func(t *testing.T, sel, fc byte, d []byte) {
		if len(d) > 320 {
			d = d[:320]
		}
		m := &refModel{regs: map[uint16]uint16{}, val: map[uint16]int{}}
		switch sel % 4 {
		case 0:
			for i := 0; i < 140; i++ {
				m.regs[uint16(i)] = uint16(i*977 + 1)
			}
		case 1:
			for i := 0; i < 140; i++ {
				m.regs[uint16(0xffff-i)] = uint16(i*31 + 5)
			}
		case 2:
			for _, a := range []uint16{0, 1, 2, 4, 5, 9, 10, 11, 12, 40, 41} {
				m.regs[a] = 0xffff
			}
		default:
			for i := 0; i < 20; i++ {
				m.regs[uint16(i)] = uint16(i)
			}
			m.val[3] = 1
			m.val[7] = 0
		}
		regs := buildRegs(m)
		if _, err := step(m, regs, fc, d); err != nil {
			t.Fatal(err)
		}
	})
}
