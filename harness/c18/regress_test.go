package c18

import "testing"

func denseModel(n int) *refModel {
	m := &refModel{regs: map[uint16]uint16{}, val: map[uint16]int{}}
	for i := 0; i < n; i++ {
		m.regs[uint16(i)] = 0xffff
	}
	return m
}

func run(t *testing.T, m *refModel, fc byte, d ...byte) {
	t.Helper()
	if _, err := step(m, buildRegs(m), fc, d); err != nil {
		t.Fatal(err)
	}
}

// quantities outside the protocol limits get exception 03 and never crash
func TestRegressQuantityLimits(t *testing.T) {
	m := denseModel(300)
	run(t, m, 1, 0, 0, 0, 0)       // 0 coils
	run(t, m, 1, 0, 0, 0x07, 0xd1) // 2001 coils
	run(t, m, 1, 0, 0, 0x07, 0xf9) // 2041 coils: byte-count overflow
	run(t, m, 2, 0, 0, 0xff, 0xff)
	run(t, m, 3, 0, 0, 0, 0)
	run(t, m, 3, 0, 0, 0, 126)
	run(t, m, 3, 0, 0, 0x80, 0) // 0x8000 registers: uint16 length overflow
	run(t, m, 4, 0, 0, 0x80, 1)
	run(t, m, 16, 0, 0, 0, 0, 0)
	run(t, m, 15, 0, 0, 0, 0, 0)
}

// a block that runs past address 0xFFFF does not wrap to register 0
func TestRegressAddressWrap(t *testing.T) {
	m := &refModel{regs: map[uint16]uint16{}, val: map[uint16]int{}}
	for i := 0; i < 8; i++ {
		m.regs[uint16(i)] = 0x1111
		m.regs[uint16(0xffff-i)] = 0x2222
	}
	run(t, m, 3, 0xff, 0xfc, 0, 8)
	run(t, m, 16, 0xff, 0xfe, 0, 3, 6, 0, 1, 0, 2, 0, 3)
}
