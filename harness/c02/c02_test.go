// Package c02 decides property C02: a downstream instance and its upstream
// converge on the shared device tree whatever writes, creations, deletions
// and link interruptions happened.
package c02

import (
	"fmt"
	"sort"
	"strings"
	"testing"
	"time"

	"github.com/nats-io/nats.go"
	"github.com/simpleiot/simpleiot/client"
	"github.com/simpleiot/simpleiot/data"
	"pgregory.net/rapid"

	"verif/internal/fix"
	"verif/internal/stats"
)

func TestMain(m *testing.M) { fix.Quiet(); stats.Main(m) }

const (
	devID   = "dev1"
	cloudID = "cloud"
	syncID  = "sync1"
)

type side struct {
	name string
	in   *fix.Inst
	top  string // parent of the device node on this side
}

// subtree dumps the device subtree (deleted included) keyed by parent>id,
// with the top edge's parent normalised to "TOP".
func subtree(s *side) (map[string]fix.E, error) {
	out := map[string]fix.E{}
	var walk func(parent, id string, depth int) error
	walk = func(parent, id string, depth int) error {
		ns, err := client.GetNodes(s.in.NC, parent, id, "", true)
		if err != nil {
			return err
		}
		for _, n := range ns {
			e := fix.FromNodeEdge(n)
			if depth == 0 {
				e.Parent = "TOP"
				e.EdgePoints = nil // the device node's own edge points are not synchronised (documented)
			}
			e.Hash = 0
			out[e.Key()] = e
		}
		if len(ns) == 0 || depth > 12 {
			return nil
		}
		kids, err := client.GetNodes(s.in.NC, id, "all", "", true)
		if err != nil {
			return err
		}
		for _, k := range kids {
			if err := walk(id, k.ID, depth+1); err != nil {
				return err
			}
		}
		return nil
	}
	return out, walk(s.top, devID, 0)
}

func pointNoOrigin(p fix.P) fix.P { p.Origin = ""; return p }

// diff describes the first difference between the two sides ("" if equal).
func diff(a, b map[string]fix.E) string {
	var keys []string
	for k := range a {
		keys = append(keys, k)
	}
	for k := range b {
		if _, ok := a[k]; !ok {
			keys = append(keys, k)
		}
	}
	sort.Strings(keys)
	for _, k := range keys {
		x, okx := a[k]
		y, oky := b[k]
		if !okx {
			return fmt.Sprintf("node %s exists only upstream", k)
		}
		if !oky {
			return fmt.Sprintf("node %s exists only downstream", k)
		}
		if x.Type != y.Type {
			return fmt.Sprintf("node %s: type %q downstream, %q upstream", k, x.Type, y.Type)
		}
		if s := diffPoints(k+" node points", x.Points, y.Points); s != "" {
			return s
		}
		if s := diffPoints(k+" edge points", x.EdgePoints, y.EdgePoints); s != "" {
			return s
		}
	}
	return ""
}

func diffPoints(what string, a, b []fix.P) string {
	idx := func(ps []fix.P) map[string]fix.P {
		m := map[string]fix.P{}
		for _, p := range ps {
			k := p.Key
			if k == "" {
				k = "0"
			}
			m[p.Type+"\x00"+k] = pointNoOrigin(p)
		}
		return m
	}
	ma, mb := idx(a), idx(b)
	for k, p := range ma {
		q, ok := mb[k]
		if !ok {
			return fmt.Sprintf("%s: %v exists only downstream", what, p)
		}
		if p != q {
			return fmt.Sprintf("%s: downstream holds %v, upstream holds %v", what, p, q)
		}
	}
	for k, q := range mb {
		if _, ok := ma[k]; !ok {
			return fmt.Sprintf("%s: %v exists only upstream", what, q)
		}
	}
	return ""
}

type written struct {
	target string // node id, or parent>id for edge points
	p      fix.P
	side   string
}

func TestPropConverge(t *testing.T) {
	rapid.Check(t, func(t *rapid.T) {
		// half of the cases: the upstream bus requires a token, configured in the sync node
		upToken := ""
		if rapid.Bool().Draw(t, "upstreamToken") {
			upToken = "tok-" + rapid.StringMatching(`[a-z0-9]{4,10}`).Draw(t, "token")
		}
		up := fix.New(t, fix.Opts{TCP: true, ID: cloudID, AuthToken: upToken})
		defer func() { up.Close() }()
		down := fix.New(t, fix.Opts{TCP: true, ID: devID})
		defer down.Close()
		U := &side{name: "upstream", in: up, top: cloudID}
		D := &side{name: "downstream", in: down, top: "root"}

		var last int64
		ts := func() time.Time {
			n := time.Now().UnixNano()
			if n <= last {
				n = last + 1000
			}
			last = n
			return time.Unix(0, n)
		}
		var hist []string
		var writes []written
		ack := func(s *side, id, parent string, pts data.Points) {
			subj := "p." + id
			if parent != "" {
				subj += "." + parent
			}
			r, err := fix.Write(s.in.NC, subj, pts)
			if err != nil || r != "" {
				t.Fatalf("%s write %s: %q %v\nhistory: %v", s.name, subj, r, err, hist)
			}
			target := id
			if parent != "" {
				target = parent + ">" + id
			}
			for _, p := range pts {
				if p.Type != data.PointTypeNodeType {
					writes = append(writes, written{target, fix.FromPoint(p), s.name})
				}
			}
		}
		// the sync client is run the public way: through the manager on the downstream
		mnc, err := down.Connect()
		if err != nil {
			t.Fatalf("connect: %v", err)
		}
		defer mnc.Close()
		mgr := client.NewManager(mnc, client.NewSyncClient, nil)
		mdone := make(chan error, 1)
		go func() { mdone <- mgr.Run() }()
		defer func() {
			mgr.Stop(nil)
			select {
			case <-mdone:
			case <-time.After(20 * time.Second):
			}
		}()
		ack(D, syncID, "", data.Points{{Type: data.PointTypeDescription, Text: "link", Time: ts(), Origin: "h"}, {Type: data.PointTypeURI, Text: up.URL, Time: ts(), Origin: "h"},
			{Type: data.PointTypePeriod, Value: 1, Time: ts(), Origin: "h"}, {Type: data.PointTypeAuthToken, Text: upToken, Time: ts(), Origin: "h"}})
		ack(D, syncID, devID, data.Points{{Type: data.PointTypeTombstone, Time: ts(), Origin: "h"}, {Type: data.PointTypeNodeType, Text: "sync", Origin: "h"}})
		writes = nil // the sync node's own points are bookkeeping: compared between sides only
		// wait for the initial catch-up: the device node appears upstream
		deadline := time.Now().Add(30 * time.Second)
		for {
			ns, _ := client.GetNodes(up.NC, cloudID, devID, "", false)
			if len(ns) > 0 {
				break
			}
			if time.Now().After(deadline) {
				t.Fatalf("initial synchronisation never created the device node upstream")
			}
			time.Sleep(5 * time.Millisecond)
		}

		visible := func(s *side, parent, id string) bool {
			if parent == "root" || parent == "TOP" {
				parent = s.top
			}
			ns, err := client.GetNodes(s.in.NC, parent, id, "", true)
			return err == nil && len(ns) > 0
		}
		type edge struct{ parent, id string }
		nodes := []edge{{"TOP", devID}} // nodes created by the harness (plus the device)
		linkUp := true
		flags := map[string]bool{}
		outage := map[string]bool{}
		setLink := func(upNow bool) {
			v := 1.0
			if upNow {
				v = 0
			}
			r, err := fix.Write(down.NC, "p."+syncID, data.Points{{Type: data.PointTypeDisabled, Value: v, Time: ts(), Origin: "h"}})
			if err != nil || r != "" {
				t.Fatalf("link switch: %q %v", r, err)
			}
			linkUp = upNow
			hist = append(hist, fmt.Sprintf("link up=%v", upNow))
			if !upNow {
				outage = map[string]bool{}
				// give the client a moment to drop the connection, so that "down" means down
				time.Sleep(150 * time.Millisecond)
			}
		}
		nNew := 0
		// every history starts with two nodes below the device, so that deletions,
		// edge points and grandchildren have something to act on from the first step
		for _, par := range []string{devID, "n1"} {
			nNew++
			id := fmt.Sprintf("n%d", nNew)
			ack(D, id, "", data.Points{{Type: data.PointTypeDescription, Text: id, Time: ts(), Origin: "h-setup"}})
			ack(D, id, par, data.Points{{Type: data.PointTypeTombstone, Value: 0, Time: ts(), Origin: "h-setup"}, {Type: data.PointTypeNodeType, Text: data.NodeTypeVariable, Origin: "h-setup"}})
			nodes = append(nodes, edge{par, id})
		}
		steps := rapid.IntRange(6, 20).Draw(t, "steps")
		for i := 0; i < steps; i++ {
			s := D
			if rapid.Bool().Draw(t, "onUpstream") {
				s = U
			}
			ops := []string{"nodePoint", "nodePoint", "edgePoint", "create", "create", "delete", "undelete", "restartUpstream", "mirror", "mirror"}
			if linkUp {
				ops = append(ops, "linkDown", "linkDown")
			} else {
				// stay down for a while and write on both sides during the outage
				ops = append(ops, "linkUp", "nodePoint", "edgePoint", "delete", "delete", "undelete", "create")
				if i%2 == 0 {
					s = D
				} else {
					s = U
				}
			}
			op := rapid.SampledFrom(ops).Draw(t, "op")
			// known finding C02-F1: nothing is written to a node that has two
			// placements, or below such a node, once the second placement exists
			underDiamond := func(id string) bool {
				seen := map[string]bool{}
				var up func(x string) bool
				up = func(x string) bool {
					if seen[x] {
						return false
					}
					seen[x] = true
					n := 0
					for _, e := range nodes {
						if e.id == x {
							n++
						}
					}
					if n >= 2 {
						return true
					}
					for _, e := range nodes {
						if e.id == x && e.parent != "TOP" && up(e.parent) {
							return true
						}
					}
					return false
				}
				return up(id)
			}
			switch op {
			case "nodePoint":
				n := nodes[rapid.IntRange(0, len(nodes)-1).Draw(t, "node")]
				if !visible(s, n.parent, n.id) {
					break
				}
				if underDiamond(n.id) {
					stats.Excluded("C02-F1 write to or below a node with two placements")
					break
				}
				p := data.Point{Type: rapid.SampledFrom([]string{"value", "description", "units"}).Draw(t, "ptype"), Key: rapid.SampledFrom([]string{"", "1"}).Draw(t, "pkey"),
					Value: float64(rapid.IntRange(-9, 9).Draw(t, "pvalue")), Text: rapid.SampledFrom([]string{"", "a", "b"}).Draw(t, "ptext"), Time: ts(), Origin: "h-" + s.name}
				ack(s, n.id, "", data.Points{p})
				hist = append(hist, fmt.Sprintf("%s: node point %s %s/%s=%v", s.name, n.id, p.Type, p.Key, p.Value))
				if !linkUp {
					outage[s.name+"Write"] = true
				}
			case "edgePoint":
				if len(nodes) < 2 {
					break
				}
				n := nodes[rapid.IntRange(1, len(nodes)-1).Draw(t, "node")]
				if !visible(s, n.parent, n.id) {
					break
				}
				if underDiamond(n.parent) {
					stats.Excluded("C02-F1 write to or below a node with two placements")
					break
				}
				p := data.Point{Type: "role", Text: rapid.SampledFrom([]string{"admin", "user"}).Draw(t, "role"), Time: ts(), Origin: "h-" + s.name}
				ack(s, n.id, n.parent, data.Points{p})
				hist = append(hist, fmt.Sprintf("%s: edge point %s>%s role=%s", s.name, n.parent, n.id, p.Text))
				if !linkUp {
					outage[s.name+"Write"] = true
				}
			case "create":
				if nNew >= 6 {
					break
				}
				par := nodes[rapid.IntRange(0, len(nodes)-1).Draw(t, "parent")]
				if !visible(s, par.parent, par.id) {
					break
				}
				if underDiamond(par.id) {
					stats.Excluded("C02-F1 write to or below a node with two placements")
					break
				}
				nNew++
				id := fmt.Sprintf("n%d", nNew)
				ack(s, id, "", data.Points{{Type: data.PointTypeDescription, Text: id, Time: ts(), Origin: "h-" + s.name}})
				ack(s, id, par.id, data.Points{{Type: data.PointTypeTombstone, Value: 0, Time: ts(), Origin: "h-" + s.name}, {Type: data.PointTypeNodeType, Text: data.NodeTypeVariable, Origin: "h-" + s.name}})
				nodes = append(nodes, edge{par.id, id})
				hist = append(hist, fmt.Sprintf("%s: create %s under %s", s.name, id, par.id))
				if !linkUp {
					outage[s.name+"Write"] = true
					flags["outage+create"] = true
				}
			case "mirror":
				// an existing node gets a second placement inside the device tree
				// (a leaf, so that no cycle can arise)
				if len(nodes) < 3 {
					break
				}
				n := nodes[rapid.IntRange(1, len(nodes)-1).Draw(t, "node")]
				par := nodes[rapid.IntRange(0, len(nodes)-1).Draw(t, "newParent")]
				ok := par.id != n.id && par.id != n.parent
				for _, e := range nodes {
					if e.parent == n.id || (e.parent == par.id && e.id == n.id) {
						ok = false
					}
				}
				if !ok || !visible(s, n.parent, n.id) || !visible(s, par.parent, par.id) {
					break
				}
				if underDiamond(par.id) {
					stats.Excluded("C02-F1 write to or below a node with two placements")
					break
				}

				ack(s, n.id, par.id, data.Points{{Type: data.PointTypeTombstone, Value: 0, Time: ts(), Origin: "h-" + s.name}, {Type: data.PointTypeNodeType, Text: data.NodeTypeVariable, Origin: "h-" + s.name}})
				nodes = append(nodes, edge{par.id, n.id})
				hist = append(hist, fmt.Sprintf("%s: mirror %s under %s", s.name, n.id, par.id))
				if !linkUp {
					outage[s.name+"Write"] = true
					flags["outage+mirror"] = true
				}
			case "delete", "undelete":
				if len(nodes) < 2 {
					break
				}
				n := nodes[rapid.IntRange(1, len(nodes)-1).Draw(t, "node")]
				if !visible(s, n.parent, n.id) {
					break
				}
				if underDiamond(n.parent) {
					stats.Excluded("C02-F1 write to or below a node with two placements")
					break
				}
				v := 1.0
				if op == "undelete" {
					v = 0
				}
				ack(s, n.id, n.parent, data.Points{{Type: data.PointTypeTombstone, Value: v, Time: ts(), Origin: "h-" + s.name}})
				hist = append(hist, fmt.Sprintf("%s: tombstone=%v on %s>%s", s.name, v, n.parent, n.id))
				if !linkUp {
					outage[s.name+"Write"] = true
					flags["outage+delete"] = true
				}
			case "linkDown":
				if linkUp {
					setLink(false)
				}
			case "linkUp":
				if !linkUp {
					setLink(true)
				}
			case "restartUpstream":
				if flags["restart"] {
					break
				}
				flags["restart"] = true
				port, dir := up.Port, up.Dir
				up.StopStore(10 * time.Second)
				up.NC.Close()
				up.NS.Shutdown()
				up.NS.WaitForShutdown()
				nu, err := fix.Start(fix.Opts{TCP: true, Port: port, Dir: dir, ID: cloudID, AuthToken: upToken})
				if err != nil {
					t.Fatalf("restart upstream: %v", err)
				}
				up = nu
				U.in = nu
				hist = append(hist, "restart upstream")
			}
			if !linkUp && outage["upstreamWrite"] && outage["downstreamWrite"] {
				flags["outageWritesBothSides"] = true
			}
			time.Sleep(time.Duration(rapid.IntRange(0, 150).Draw(t, "delayMs")) * time.Millisecond)
		}
		if !linkUp {
			setLink(true)
		}
		// convergence: within K sync periods (period 1 s; a reconnect after a restart
		// backs off 1-2 s) both dumps must be equal and stable
		var d string
		var da, db map[string]fix.E
		stable := 0
		lastDiff := ""
		linkUpAt := time.Now()
		deadline = time.Now().Add(25 * time.Second)
		for {
			var errA, errB error
			da, errA = subtree(D)
			db, errB = subtree(U)
			if errA != nil || errB != nil {
				d = fmt.Sprintf("read error: %v %v", errA, errB)
				stable = 0
			} else if d = diff(da, db); d == "" {
				stable++
			} else {
				stable = 0
			}
			if stable >= 2 {
				break
			}
			// as long as the difference keeps changing the two sides are still
			// synchronising (slow machine); 25 s without any change is a verdict
			if d != lastDiff && time.Since(linkUpAt) < 150*time.Second {
				lastDiff = d
				deadline = time.Now().Add(25 * time.Second)
			}
			if time.Now().After(deadline) {
				t.Fatalf("no convergence: the difference has not changed for 25 s with the link up: %s\nhistory: %v", d, hist)
			}
			time.Sleep(600 * time.Millisecond)
		}
		// the agreed value of every identity is the newest acknowledged write of either side
		newest := map[string]written{}
		for _, w := range writes {
			k := w.p.Key
			if k == "" {
				k = "0"
			}
			id := w.target + "\x00" + w.p.Type + "\x00" + k
			if old, ok := newest[id]; !ok || w.p.TimeNs > old.p.TimeNs {
				newest[id] = w
			}
		}
		for id, w := range newest {
			parts := strings.Split(id, "\x00")
			var e fix.E
			var pts []fix.P
			found := false
			if strings.Contains(w.target, ">") {
				key := w.target
				if strings.HasPrefix(key, "TOP>") {
					continue
				}
				e, found = da[key]
				pts = e.EdgePoints
			} else {
				for _, x := range da {
					if x.ID == w.target {
						e, found = x, true
						pts = e.Points
					}
				}
			}
			if !found {
				t.Fatalf("node %s, written by the harness on the %s side, does not exist after convergence\nhistory: %v", w.target, w.side, hist)
			}
			ok := false
			var held fix.P
			for _, p := range pts {
				pk := p.Key
				if pk == "" {
					pk = "0"
				}
				if p.Type == parts[1] && pk == parts[2] {
					held = p
					ok = p.TimeNs >= w.p.TimeNs && p.Value == w.p.Value && p.Text == w.p.Text
				}
			}
			// every identity the harness wrote (tombstones included: only the device node's own
			// edge, excluded above, may be re-stamped by the sync client) must hold exactly the
			// newest acknowledged write: nothing lost, nothing reverted
			// (a later re-stamp that carries the same content is not a lost or reverted write)
			if !ok || (held.TimeNs != w.p.TimeNs && (held.Value != w.p.Value || held.Text != w.p.Text)) {
				t.Fatalf("%s %s/%s: the newest acknowledged write (%s side) was %v, both sides now hold %v\nhistory: %v", w.target, parts[1], parts[2], w.side, w.p, held, hist)
			}
		}
		if upToken != "" {
			flags["upstreamRequiresToken"] = true
		}
		nt := flags["outageWritesBothSides"]
		var cls []string
		for f := range flags {
			cls = append(cls, f)
		}
		sort.Strings(cls)
		stats.Case(nt, stats.Digest(fmt.Sprint(hist)), cls...)
		if nt && stats.WantSample() {
			stats.Sample(map[string]any{"history": hist, "nodes": len(da)})
		}
	})
}

var _ = nats.Connect
