package c02

import (
	"testing"
	"time"

	"github.com/simpleiot/simpleiot/client"
	"github.com/simpleiot/simpleiot/data"

	"verif/internal/fix"
)

// a node deleted downstream while the link is down, then written upstream:
// both sides must converge (on the deletion and on the newer point)
func TestRegressDeleteDuringOutageConverges(t *testing.T) {
	up := fix.New(t, fix.Opts{TCP: true, ID: cloudID})
	defer up.Close()
	down := fix.New(t, fix.Opts{TCP: true, ID: devID})
	defer down.Close()
	U := &side{name: "upstream", in: up, top: cloudID}
	D := &side{name: "downstream", in: down, top: "root"}
	mnc, err := down.Connect()
	if err != nil {
		t.Fatal(err)
	}
	defer mnc.Close()
	mgr := client.NewManager(mnc, client.NewSyncClient, nil)
	done := make(chan error, 1)
	go func() { done <- mgr.Run() }()
	defer func() {
		mgr.Stop(nil)
		select {
		case <-done:
		case <-time.After(20 * time.Second):
		}
	}()
	var last int64
	ts := func() time.Time {
		n := time.Now().UnixNano()
		if n <= last {
			n = last + 1000
		}
		last = n
		return time.Unix(0, n)
	}
	w := func(s *side, subj string, pts data.Points) {
		t.Helper()
		if r, err := fix.Write(s.in.NC, subj, pts); err != nil || r != "" {
			t.Fatalf("%s %s: %q %v", s.name, subj, r, err)
		}
	}
	w(D, "p."+syncID, data.Points{{Type: data.PointTypeURI, Text: up.URL, Time: ts(), Origin: "h"}, {Type: data.PointTypePeriod, Value: 1, Time: ts(), Origin: "h"}})
	w(D, "p."+syncID+"."+devID, data.Points{{Type: data.PointTypeTombstone, Time: ts(), Origin: "h"}, {Type: data.PointTypeNodeType, Text: "sync", Origin: "h"}})
	w(D, "p.n1", data.Points{{Type: data.PointTypeDescription, Text: "n1", Time: ts(), Origin: "h"}})
	w(D, "p.n1."+devID, data.Points{{Type: data.PointTypeTombstone, Time: ts(), Origin: "h"}, {Type: data.PointTypeNodeType, Text: data.NodeTypeVariable, Origin: "h"}})
	waitFor := func(what string, f func() bool) {
		t.Helper()
		deadline := time.Now().Add(30 * time.Second)
		for !f() {
			if time.Now().After(deadline) {
				t.Fatalf("timeout waiting for %s", what)
			}
			time.Sleep(20 * time.Millisecond)
		}
	}
	waitFor("n1 upstream", func() bool { ns, _ := client.GetNodes(up.NC, devID, "n1", "", false); return len(ns) > 0 })
	// outage
	w(D, "p."+syncID, data.Points{{Type: data.PointTypeDisabled, Value: 1, Time: ts(), Origin: "h"}})
	time.Sleep(300 * time.Millisecond)
	w(D, "p.n1."+devID, data.Points{{Type: data.PointTypeTombstone, Value: 1, Time: ts(), Origin: "h"}})
	w(U, "p.n1", data.Points{{Type: "value", Value: 7, Time: ts(), Origin: "h"}})
	w(D, "p."+syncID, data.Points{{Type: data.PointTypeDisabled, Value: 0, Time: ts(), Origin: "h"}})
	var d string
	deadline := time.Now().Add(25 * time.Second)
	for {
		da, errA := subtree(D)
		db, errB := subtree(U)
		if errA == nil && errB == nil {
			if d = diff(da, db); d == "" {
				e := da[devID+">n1"]
				tomb := false
				for _, p := range e.EdgePoints {
					if p.Type == data.PointTypeTombstone && p.Value == 1 {
						tomb = true
					}
				}
				if !tomb {
					t.Fatalf("converged, but the deletion made during the outage was reverted: %v", e.EdgePoints)
				}
				return
			}
		}
		if time.Now().After(deadline) {
			t.Fatalf("no convergence after an outage with a downstream deletion: %s", d)
		}
		time.Sleep(500 * time.Millisecond)
	}
}
