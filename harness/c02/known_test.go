package c02

import (
	"fmt"
	"testing"
	"time"

	"github.com/simpleiot/simpleiot/client"
	"github.com/simpleiot/simpleiot/data"

	"verif/internal/fix"
	"verif/internal/known"
)

// TestKnownDiamondOutageWrite pins finding C02-F1: a node that has two
// placements inside the device tree is written on one side while the link is
// down. Its content enters the hashes of both placements, the two changes
// cancel in the XOR at their common ancestor, the top-level hashes of the two
// instances stay equal and no synchronisation pass ever descends to the node.
func TestKnownDiamondOutageWrite(t *testing.T) {
	up := fix.New(t, fix.Opts{TCP: true, ID: cloudID})
	defer up.Close()
	down := fix.New(t, fix.Opts{TCP: true, ID: devID})
	defer down.Close()
	var last int64
	ts := func() time.Time {
		n := time.Now().UnixNano()
		if n <= last {
			n = last + 1000
		}
		last = n
		return time.Unix(0, n)
	}
	w := func(in *fix.Inst, id, parent string, pts data.Points) {
		t.Helper()
		subj := "p." + id
		if parent != "" {
			subj += "." + parent
		}
		if r, err := fix.Write(in.NC, subj, pts); err != nil || r != "" {
			t.Fatalf("write %s: %q %v", subj, r, err)
		}
	}
	mnc, err := down.Connect()
	if err != nil {
		t.Fatal(err)
	}
	defer mnc.Close()
	mgr := client.NewManager(mnc, client.NewSyncClient, nil)
	mdone := make(chan error, 1)
	go func() { mdone <- mgr.Run() }()
	defer func() {
		mgr.Stop(nil)
		select {
		case <-mdone:
		case <-time.After(20 * time.Second):
		}
	}()
	w(down, syncID, "", data.Points{{Type: data.PointTypeDescription, Text: "link", Time: ts(), Origin: "h"}, {Type: data.PointTypeURI, Text: up.URL, Time: ts(), Origin: "h"},
		{Type: data.PointTypePeriod, Value: 1, Time: ts(), Origin: "h"}})
	w(down, syncID, devID, data.Points{{Type: data.PointTypeTombstone, Time: ts(), Origin: "h"}, {Type: data.PointTypeNodeType, Text: "sync", Origin: "h"}})
	upHas := func(parent, id string, pointType string) bool {
		ns, _ := client.GetNodes(up.NC, parent, id, "", false)
		if len(ns) == 0 {
			return false
		}
		if pointType == "" {
			return true
		}
		_, ok := ns[0].Points.Find(pointType, "")
		return ok
	}
	wait := func(what string, d time.Duration, f func() bool) bool {
		dl := time.Now().Add(d)
		for !f() {
			if time.Now().After(dl) {
				return false
			}
			time.Sleep(20 * time.Millisecond)
		}
		return true
	}
	if !wait("device upstream", 30*time.Second, func() bool { return upHas(cloudID, devID, "") }) {
		t.Fatalf("initial synchronisation never created the device node upstream")
	}
	mk := func(id, parent string) {
		w(down, id, "", data.Points{{Type: data.PointTypeDescription, Text: id, Time: ts(), Origin: "h"}})
		w(down, id, parent, data.Points{{Type: data.PointTypeTombstone, Time: ts(), Origin: "h"}, {Type: data.PointTypeNodeType, Text: data.NodeTypeVariable, Origin: "h"}})
	}
	mk("n1", devID)
	mk("n2", "n1")
	mk("n3", "n1")
	w(down, "n3", "n2", data.Points{{Type: data.PointTypeTombstone, Time: ts(), Origin: "h"}, {Type: data.PointTypeNodeType, Text: data.NodeTypeVariable, Origin: "h"}})
	if !wait("both placements upstream", 30*time.Second, func() bool { return upHas("n1", "n3", "") && upHas("n2", "n3", "") }) {
		t.Fatalf("the two placements of n3 never reached the upstream with the link up")
	}
	// control: a write with the link up arrives
	w(down, "n3", "", data.Points{{Type: "value", Value: 1, Time: ts(), Origin: "h"}})
	if !wait("live write upstream", 30*time.Second, func() bool { return upHas("n1", "n3", "value") }) {
		t.Fatalf("a write to n3 with the link up never reached the upstream")
	}
	w(down, syncID, "", data.Points{{Type: data.PointTypeDisabled, Value: 1, Time: ts(), Origin: "h"}})
	time.Sleep(500 * time.Millisecond)
	w(down, "n3", "", data.Points{{Type: "units", Text: "written during the outage", Time: ts(), Origin: "h"}})
	w(down, syncID, "", data.Points{{Type: data.PointTypeDisabled, Value: 0, Time: ts(), Origin: "h"}})
	arrived := wait("outage write upstream", 8*time.Second, func() bool { return upHas("n1", "n3", "units") })
	known.Report(t, "C02", "C02-F1", "a write made during an outage to a node with two placements inside the device tree never reaches the other side (the hash changes of the two placements cancel at their common ancestor, so the instances look equal)",
		!arrived, fmt.Sprintf("n3 (under n1 and n2) was written downstream during an outage; 8 s after the link came back (sync period 1 s) the upstream still lacks the point"))
}
