// Package c07 decides property C07: exactly one running client per live
// configured node, restarts on child changes, no overlap, clean manager stop.
package c07

import (
	"fmt"
	"sort"
	"strings"
	"sync"
	"testing"
	"time"

	"github.com/nats-io/nats.go"
	"github.com/simpleiot/simpleiot/client"
	"github.com/simpleiot/simpleiot/data"
	"pgregory.net/rapid"

	"verif/internal/fix"
	"verif/internal/stats"
)

func TestMain(m *testing.M) { fix.Quiet(); stats.Main(m) }

// Probe is the managed node type ("probe"); ProbeKid its child type.
type Probe struct {
	ID          string     `node:"id"`
	Parent      string     `node:"parent"`
	Description string     `point:"description"`
	Kids        []ProbeKid `child:"probeKid"`
}

type ProbeKid struct {
	ID          string `node:"id"`
	Parent      string `node:"parent"`
	Description string `point:"description"`
}

type logEntry struct {
	at   time.Time
	what string // construct | run | stop | return
	key  string // parent>id
	inst int
}

type recorder struct {
	mu      sync.Mutex
	log     []logEntry
	running map[string]int   // key -> number of Run calls in progress
	latest  map[string]Probe // key -> config of the most recently constructed client
	insts   int
	overlap string
	delays  []time.Duration
	// atConstruct[key], when set, is run once by the constructor of the next
	// client for that placement: inside the manager's window between reading
	// the node's children and subscribing to the node
	atConstruct map[string]func()
	fired       map[string]bool
}

func (r *recorder) add(what, key string, inst int) {
	r.log = append(r.log, logEntry{time.Now(), what, key, inst})
}

type probeClient struct {
	rec   *recorder
	key   string
	inst  int
	stop  chan struct{}
	once  sync.Once
	delay time.Duration
}

func (c *probeClient) Run() error {
	r := c.rec
	r.mu.Lock()
	r.running[c.key]++
	if r.running[c.key] > 1 && r.overlap == "" {
		r.overlap = fmt.Sprintf("two clients for placement %s run at the same time (instance %d entered Run while another was still running)", c.key, c.inst)
	}
	r.add("run", c.key, c.inst)
	r.mu.Unlock()
	<-c.stop
	time.Sleep(c.delay)
	r.mu.Lock()
	r.running[c.key]--
	r.add("return", c.key, c.inst)
	r.mu.Unlock()
	return nil
}

func (c *probeClient) Stop(error) {
	c.once.Do(func() {
		c.rec.mu.Lock()
		c.rec.add("stop", c.key, c.inst)
		c.rec.mu.Unlock()
		close(c.stop)
	})
}
func (c *probeClient) Points(string, []data.Point)             {}
func (c *probeClient) EdgePoints(string, string, []data.Point) {}

// ---------------------------------------------------------------------------
// model

type mnode struct {
	typ string
}

type medge struct {
	parent, id string
	deleted    bool
}

type world struct {
	nodes map[string]*mnode
	edges []*medge
}

func (w *world) edge(parent, id string) *medge {
	for _, e := range w.edges {
		if e.parent == parent && e.id == id {
			return e
		}
	}
	return nil
}

// expected returns the placements that must have a running client, with
// the live probeKid children of each.
func (w *world) expected() map[string][]string {
	out := map[string][]string{}
	var walk func(id string, seen map[string]bool)
	walk = func(id string, seen map[string]bool) {
		if seen[id] {
			return
		}
		seen[id] = true
		for _, e := range w.edges {
			if e.parent != id || e.deleted {
				continue
			}
			switch w.nodes[e.id].typ {
			case "probe":
				var kids []string
				for _, k := range w.edges {
					if k.parent == e.id && !k.deleted && w.nodes[k.id].typ == "probeKid" {
						kids = append(kids, k.id)
					}
				}
				sort.Strings(kids)
				out[e.parent+">"+e.id] = kids
			case data.NodeTypeGroup, "probeHost":
				walk(e.id, seen)
			}
		}
	}
	walk("inst", map[string]bool{})
	return out
}

// ---------------------------------------------------------------------------

func TestPropOneClientPerNode(t *testing.T) {
	rapid.Check(t, func(t *rapid.T) {
		in := fix.New(t, fix.Opts{ID: "inst"})
		defer in.Close()
		rec := &recorder{running: map[string]int{}, latest: map[string]Probe{}, atConstruct: map[string]func(){}, fired: map[string]bool{}}
		for i := 0; i < 8; i++ {
			rec.delays = append(rec.delays, time.Duration(rapid.IntRange(0, 100).Draw(t, "runReturnDelayMs"))*time.Millisecond)
		}
		mnc, err := in.Connect()
		if err != nil {
			t.Fatalf("connect: %v", err)
		}
		defer mnc.Close()
		mgr := client.NewManager(mnc, func(_ *nats.Conn, c Probe) client.Client {
			rec.mu.Lock()
			rec.insts++
			inst := rec.insts
			key := c.Parent + ">" + c.ID
			rec.latest[key] = c
			rec.add("construct", key, inst)
			hook := rec.atConstruct[key]
			delete(rec.atConstruct, key)
			rec.mu.Unlock()
			if hook != nil {
				hook()
				rec.mu.Lock()
				rec.fired[key] = true
				rec.mu.Unlock()
			}
			return &probeClient{rec: rec, key: key, inst: inst, stop: make(chan struct{}), delay: rec.delays[inst%len(rec.delays)]}
		}, []string{"probeHost"})
		mdone := make(chan error, 1)
		go func() { mdone <- mgr.Run() }()
		stopped := false
		defer func() {
			if !stopped {
				mgr.Stop(nil)
				select {
				case <-mdone:
				case <-time.After(20 * time.Second):
				}
			}
		}()

		w := &world{nodes: map[string]*mnode{"inst": {typ: "device"}}}
		clock := int64(1800000000) * 1e9
		tick := func() time.Time { clock += 1000; return time.Unix(0, clock) }
		var hist []string
		send := func(id, parent string, pts data.Points) {
			subj := "p." + id
			if parent != "" {
				subj += "." + parent
			}
			r, err := fix.Write(in.NC, subj, pts)
			if err != nil && strings.Contains(err.Error(), "timeout") {
				// a store that does not answer within 20 s is C05's and C20's business;
				// here it only means this case cannot be judged
				stats.Inconclusive("store request timed out (20 s)")
				t.Skip("store request timed out")
			}
			if err != nil || r != "" {
				t.Fatalf("write %s: %q %v\nhistory: %v", subj, r, err, hist)
			}
		}
		origin := "h" // who writes: anybody, or (for child changes) the managed node itself
		place := func(id, parent, typ string) {
			send(id, parent, data.Points{{Type: data.PointTypeTombstone, Value: 0, Time: tick(), Origin: origin}, {Type: data.PointTypeNodeType, Text: typ, Origin: origin}})
			if w.nodes[id] == nil {
				w.nodes[id] = &mnode{typ: typ}
			}
			if e := w.edge(parent, id); e != nil {
				e.deleted = false
			} else {
				w.edges = append(w.edges, &medge{parent: parent, id: id})
			}
			hist = append(hist, fmt.Sprintf("place %s(%s) under %s", id, typ, parent))
		}
		setDeleted := func(e *medge, del bool) {
			v := 0.0
			if del {
				v = 1
			}
			send(e.id, e.parent, data.Points{{Type: data.PointTypeTombstone, Value: v, Time: tick(), Origin: origin}})
			e.deleted = del
			hist = append(hist, fmt.Sprintf("deleted=%v %s>%s", del, e.parent, e.id))
		}
		containers := func() []string {
			out := []string{"inst"}
			for id, n := range w.nodes {
				if n.typ == data.NodeTypeGroup || n.typ == "probeHost" || n.typ == "variable" {
					out = append(out, id)
				}
			}
			sort.Strings(out)
			return out
		}
		ofType := func(typ string) []string {
			var out []string
			for id, n := range w.nodes {
				if n.typ == typ {
					out = append(out, id)
				}
			}
			sort.Strings(out)
			return out
		}
		wouldCycle := func(parent, id string) bool {
			seen := map[string]bool{}
			var up func(x string) bool
			up = func(x string) bool {
				if x == id {
					return true
				}
				if seen[x] {
					return false
				}
				seen[x] = true
				for _, e := range w.edges {
					if e.id == x && up(e.parent) {
						return true
					}
				}
				return false
			}
			return up(parent)
		}

		// quiesce: trigger the manager's scan (what any node creation does) until
		// the running set equals the model and the log has been quiet for 300 ms
		quiesce := func(label string) {
			exp := w.expected()
			deadline := time.Now().Add(20 * time.Second)
			lastTrigger := time.Time{}
			var why string
			for {
				if time.Since(lastTrigger) > time.Second {
					pb, _ := (&data.Points{{Type: data.PointTypeNodeType, Text: "verif"}}).ToPb()
					in.NC.Publish("up.root.verif", pb)
					in.NC.Flush()
					lastTrigger = time.Now()
				}
				rec.mu.Lock()
				quiet := len(rec.log) == 0 || time.Since(rec.log[len(rec.log)-1].at) > 300*time.Millisecond
				running := map[string]bool{}
				for k, n := range rec.running {
					if n > 0 {
						running[k] = true
					}
				}
				overlap := rec.overlap
				why = ""
				for k := range exp {
					if !running[k] {
						why = "no running client for live placement " + k
					}
				}
				for k := range running {
					if _, ok := exp[k]; !ok {
						why = "a client is running for " + k + ", which is not a live configured placement"
					}
				}
				if why == "" {
					for k, kids := range exp {
						c := rec.latest[k]
						var have []string
						for _, kk := range c.Kids {
							have = append(have, kk.ID)
						}
						sort.Strings(have)
						if fmt.Sprint(have) != fmt.Sprint(kids) {
							why = fmt.Sprintf("client for %s was constructed with children %v, the node has %v", k, have, kids)
						}
						if parts := strings.Split(k, ">"); c.Parent != parts[0] || c.ID != parts[1] {
							why = fmt.Sprintf("client for %s constructed with id %q parent %q", k, c.ID, c.Parent)
						}
					}
				}
				logCopy := renderLog(rec.log)
				rec.mu.Unlock()
				if overlap != "" {
					t.Fatalf("%s\nhistory: %v\nlog:\n%s", overlap, hist, logCopy)
				}
				if why == "" && quiet && time.Since(lastTrigger) > 300*time.Millisecond {
					return
				}
				if time.Now().After(deadline) {
					if why == "" {
						// the state is the expected one; only the "quiet for 300 ms between two
						// triggers" window was never observed (a starved machine): not a verdict
						return
					}
					t.Fatalf("%s: after quiescence %s\nexpected placements: %v\nhistory: %v\nlog:\n%s", label, why, keys(exp), hist, logCopy)
				}
				time.Sleep(20 * time.Millisecond)
			}
		}

		// initial containers
		place("g1", "inst", data.NodeTypeGroup)
		place("v1", "inst", "variable")
		if rapid.IntRange(0, 3).Draw(t, "seedProbes") > 0 {
			// start with two clients so that later steps act on a populated manager
			place("p0", "g1", "probe")
			place("p1", rapid.SampledFrom([]string{"inst", "g1"}).Draw(t, "p1Parent"), "probe")
		}
		flags := map[string]bool{}
		steps := rapid.IntRange(4, 14).Draw(t, "steps")
		checkAt := rapid.IntRange(1, steps).Draw(t, "checkpoint")
		for s := 0; s < steps; s++ {
			op := rapid.SampledFrom([]string{"newProbe", "newProbe", "newContainer", "mirror", "delete", "delete", "undelete", "addKid", "removeKid", "pointUpdate", "kidDuringConstruct"}).Draw(t, "op")
			switch op {
			case "newProbe":
				id := fmt.Sprintf("p%d", len(ofType("probe")))
				if len(ofType("probe")) >= 5 {
					break
				}
				place(id, rapid.SampledFrom(containers()).Draw(t, "parent"), "probe")
			case "newContainer":
				typ := rapid.SampledFrom([]string{data.NodeTypeGroup, "probeHost", "variable"}).Draw(t, "ctype")
				id := fmt.Sprintf("c%d", len(w.nodes))
				if len(w.nodes) > 12 {
					break
				}
				place(id, rapid.SampledFrom(containers()).Draw(t, "parent"), typ)
			case "mirror":
				ps := ofType("probe")
				if len(ps) == 0 {
					break
				}
				id := rapid.SampledFrom(ps).Draw(t, "probe")
				parent := rapid.SampledFrom(containers()).Draw(t, "parent")
				if w.edge(parent, id) == nil && !wouldCycle(parent, id) {
					place(id, parent, "probe")
					flags["mirror"] = true
				}
			case "delete", "undelete":
				var cands []*medge
				for _, e := range w.edges {
					if e.deleted == (op == "undelete") {
						cands = append(cands, e)
					}
				}
				if len(cands) == 0 {
					break
				}
				// prefer container edges: their deletion removes clients below them
				var cont []*medge
				for _, e := range cands {
					if ty := w.nodes[e.id].typ; ty == data.NodeTypeGroup || ty == "probeHost" {
						cont = append(cont, e)
					}
				}
				if len(cont) > 0 && rapid.Bool().Draw(t, "preferContainer") {
					cands = cont
				}
				e := cands[rapid.IntRange(0, len(cands)-1).Draw(t, "edge")]
				before := len(w.expected())
				setDeleted(e, op == "delete")
				if w.nodes[e.id].typ != "probe" && w.nodes[e.id].typ != "probeKid" && len(w.expected()) != before {
					flags["ancestorDeletion"] = true
				}
			case "addKid":
				ps := ofType("probe")
				if len(ps) == 0 {
					break
				}
				id := fmt.Sprintf("k%d", len(ofType("probeKid")))
				parent := rapid.SampledFrom(ps).Draw(t, "probe")
				running := len(w.expected())
				if rapid.Bool().Draw(t, "writtenByTheNodeItself") {
					origin = parent
					flags["childChangeWithOwnOrigin"] = true
				}
				place(id, parent, "probeKid")
				origin = "h"
				if running >= 2 {
					flags["childChangeWith>=2Clients"] = true
				}
			case "removeKid":
				var cands []*medge
				for _, e := range w.edges {
					if !e.deleted && w.nodes[e.id].typ == "probeKid" {
						cands = append(cands, e)
					}
				}
				if len(cands) == 0 {
					break
				}
				if len(w.expected()) >= 2 {
					flags["childChangeWith>=2Clients"] = true
				}
				ke := cands[rapid.IntRange(0, len(cands)-1).Draw(t, "kid")]
				if rapid.Bool().Draw(t, "writtenByTheNodeItself") {
					origin = ke.parent
					flags["childChangeWithOwnOrigin"] = true
				}
				setDeleted(ke, true)
				origin = "h"
			case "kidDuringConstruct":
				// a new probe whose constructor -- called by the manager after it
				// has read the node's children and before it subscribes to the
				// node -- adds a child to that node. The harness owns this
				// schedule: the child lands in the manager's start-up window.
				if len(ofType("probe")) >= 5 {
					break
				}
				id := fmt.Sprintf("p%d", len(ofType("probe")))
				parent := rapid.SampledFrom(containers()).Draw(t, "parent")
				kid := fmt.Sprintf("k%d", len(ofType("probeKid")))
				key := parent + ">" + id
				// swap: the node already has a child, which is removed in the window
				// while another one is added (the number of children stays the same)
				swap := rapid.Bool().Draw(t, "swapChild")
				oldKid := fmt.Sprintf("k%d", len(ofType("probeKid"))+1)
				if swap {
					place(oldKid, id, "probeKid")
				}
				ts, ts2 := tick(), tick()
				var hookErr string
				rec.mu.Lock()
				rec.atConstruct[key] = func() {
					r, err := fix.Write(in.NC, "p."+kid+"."+id, data.Points{{Type: data.PointTypeTombstone, Value: 0, Time: ts, Origin: "h"}, {Type: data.PointTypeNodeType, Text: "probeKid", Origin: "h"}})
					if err != nil || r != "" {
						hookErr = fmt.Sprintf("%q %v", r, err)
					}
					if swap {
						r, err := fix.Write(in.NC, "p."+oldKid+"."+id, data.Points{{Type: data.PointTypeTombstone, Value: 1, Time: ts2, Origin: "h"}})
						if err != nil || r != "" {
							hookErr = fmt.Sprintf("%q %v", r, err)
						}
					}
				}
				rec.mu.Unlock()
				place(id, parent, "probe")
				if _, live := w.expected()[key]; !live {
					// no client is constructed for this placement now; the child
					// is added the ordinary way
					rec.mu.Lock()
					delete(rec.atConstruct, key)
					rec.mu.Unlock()
					place(kid, id, "probeKid")
					break
				}
				deadline := time.Now().Add(20 * time.Second)
				for n := 0; ; n++ {
					rec.mu.Lock()
					f := rec.fired[key]
					rec.mu.Unlock()
					if f {
						break
					}
					if time.Now().After(deadline) {
						t.Fatalf("no client was constructed for the live placement %s within 20 s\nhistory: %v", key, hist)
					}
					if n%50 == 49 {
						pb, _ := (&data.Points{{Type: data.PointTypeNodeType, Text: "verif"}}).ToPb()
						in.NC.Publish("up.root.verif", pb)
						in.NC.Flush()
					}
					time.Sleep(20 * time.Millisecond)
				}
				if hookErr != "" {
					t.Fatalf("write of %s under %s from the constructor: %s", kid, id, hookErr)
				}
				w.nodes[kid] = &mnode{typ: "probeKid"}
				w.edges = append(w.edges, &medge{parent: id, id: kid})
				hist = append(hist, fmt.Sprintf("place %s(probeKid) under %s from inside the constructor of %s", kid, id, key))
				if swap {
					w.edge(id, oldKid).deleted = true
					hist = append(hist, fmt.Sprintf("deleted=true %s>%s from inside the same constructor", id, oldKid))
					flags["childSwappedDuringConstruct"] = true
				}
				flags["childDuringConstruct"] = true
			case "pointUpdate":
				ps := ofType("probe")
				if len(ps) == 0 {
					break
				}
				id := rapid.SampledFrom(ps).Draw(t, "probe")
				send(id, "", data.Points{{Type: "description", Text: fmt.Sprint("d", s), Time: tick(), Origin: "h"}})
				hist = append(hist, "description of "+id)
			}
			time.Sleep(time.Duration(rapid.IntRange(0, 60).Draw(t, "pauseMs")) * time.Millisecond)
			if s+1 == checkAt {
				quiesce(fmt.Sprintf("checkpoint after step %d", s+1))
			}
		}
		quiesce("end of history")
		nRunning := len(w.expected())
		// stopping the manager stops every client and returns
		mgr.Stop(nil)
		stopped = true
		select {
		case <-mdone:
		case <-time.After(12 * time.Second):
			rec.mu.Lock()
			l := renderLog(rec.log)
			rec.mu.Unlock()
			t.Fatalf("Manager.Run did not return within 12 s of Stop (%d clients running)\nhistory: %v\nlog:\n%s", nRunning, hist, l)
		}
		rec.mu.Lock()
		for k, n := range rec.running {
			if n != 0 {
				l := renderLog(rec.log)
				rec.mu.Unlock()
				t.Fatalf("manager returned from Run while the client for %s is still running\nhistory: %v\nlog:\n%s", k, hist, l)
			}
		}
		overlap := rec.overlap
		rec.mu.Unlock()
		if overlap != "" {
			t.Fatalf("%s\nhistory: %v", overlap, hist)
		}
		nt := (flags["ancestorDeletion"] || flags["childChangeWith>=2Clients"] || flags["childDuringConstruct"])
		var cls []string
		for f := range flags {
			cls = append(cls, f)
		}
		sort.Strings(cls)
		stats.Case(nt, stats.Digest(fmt.Sprint(hist)), cls...)
		if nt && stats.WantSample() {
			stats.Sample(map[string]any{"history": hist, "clients_at_end": nRunning, "client_instances": rec.insts})
		}
	})
}

func keys(m map[string][]string) []string {
	var out []string
	for k, v := range m {
		out = append(out, fmt.Sprintf("%s%v", k, v))
	}
	sort.Strings(out)
	return out
}

func renderLog(l []logEntry) string {
	var s []string
	if len(l) == 0 {
		return "(empty)"
	}
	t0 := l[0].at
	for _, e := range l {
		s = append(s, fmt.Sprintf("  +%6.3fs %-9s %s #%d", e.at.Sub(t0).Seconds(), e.what, e.key, e.inst))
	}
	if len(s) > 80 {
		s = append(s[:40], append([]string{"  ..."}, s[len(s)-39:]...)...)
	}
	return strings.Join(s, "\n")
}

// TestRegressLastClientStopsWithAncestor: the client of the only probe keeps
// running after the group above it is deleted (manager scan returned early
// when no node of the type was found).
func TestRegressLastClientStopsWithAncestor(t *testing.T) {
	in := fix.New(t, fix.Opts{ID: "inst"})
	defer in.Close()
	rec := &recorder{running: map[string]int{}, latest: map[string]Probe{}, delays: []time.Duration{0}}
	mnc, err := in.Connect()
	if err != nil {
		t.Fatal(err)
	}
	defer mnc.Close()
	mgr := client.NewManager(mnc, func(_ *nats.Conn, c Probe) client.Client {
		rec.mu.Lock()
		defer rec.mu.Unlock()
		rec.insts++
		key := c.Parent + ">" + c.ID
		rec.add("construct", key, rec.insts)
		return &probeClient{rec: rec, key: key, inst: rec.insts, stop: make(chan struct{})}
	}, nil)
	done := make(chan error, 1)
	go func() { done <- mgr.Run() }()
	defer func() {
		mgr.Stop(nil)
		select {
		case <-done:
		case <-time.After(15 * time.Second):
		}
	}()
	w := func(id, parent string, pts data.Points) {
		t.Helper()
		if r, err := in.EdgePoints(id, parent, pts); err != nil || r != "" {
			t.Fatalf("%q %v", r, err)
		}
	}
	now := time.Now()
	w("g", "inst", data.Points{{Type: data.PointTypeTombstone, Time: now, Origin: "h"}, {Type: data.PointTypeNodeType, Text: data.NodeTypeGroup, Origin: "h"}})
	w("p", "g", data.Points{{Type: data.PointTypeTombstone, Time: now, Origin: "h"}, {Type: data.PointTypeNodeType, Text: "probe", Origin: "h"}})
	running := func() int {
		rec.mu.Lock()
		defer rec.mu.Unlock()
		return rec.running["g>p"]
	}
	wait := func(want int) bool {
		deadline := time.Now().Add(15 * time.Second)
		for time.Now().Before(deadline) {
			pb, _ := (&data.Points{{Type: data.PointTypeNodeType, Text: "verif"}}).ToPb()
			in.NC.Publish("up.root.verif", pb)
			in.NC.Flush()
			for i := 0; i < 20; i++ {
				if running() == want {
					return true
				}
				time.Sleep(25 * time.Millisecond)
			}
		}
		return false
	}
	if !wait(1) {
		t.Fatalf("client for g>p did not start")
	}
	w("g", "inst", data.Points{{Type: data.PointTypeTombstone, Value: 1, Time: now.Add(time.Second), Origin: "h"}})
	if !wait(0) {
		t.Fatalf("the client for g>p keeps running although its group was deleted")
	}
}

// TestRegressChildAddedDuringConstruction: a child added to a client's node
// between the manager's read of the node's children and its subscription to
// the node (here: from inside the constructor, which the manager calls in
// exactly that window) was in neither, so the client kept running with a
// configuration that lacks the child.
func TestRegressChildAddedDuringConstruction(t *testing.T) {
	in := fix.New(t, fix.Opts{ID: "inst"})
	defer in.Close()
	rec := &recorder{running: map[string]int{}, latest: map[string]Probe{}, delays: []time.Duration{0}}
	mnc, err := in.Connect()
	if err != nil {
		t.Fatal(err)
	}
	defer mnc.Close()
	now := time.Now()
	first := true
	var hookErr string
	mgr := client.NewManager(mnc, func(_ *nats.Conn, c Probe) client.Client {
		rec.mu.Lock()
		rec.insts++
		inst := rec.insts
		key := c.Parent + ">" + c.ID
		rec.latest[key] = c
		rec.add("construct", key, inst)
		f := first
		first = false
		rec.mu.Unlock()
		if f {
			r, err := in.EdgePoints("k", "p", data.Points{{Type: data.PointTypeTombstone, Time: now, Origin: "h"}, {Type: data.PointTypeNodeType, Text: "probeKid", Origin: "h"}})
			if err != nil || r != "" {
				hookErr = fmt.Sprintf("%q %v", r, err)
			}
		}
		return &probeClient{rec: rec, key: key, inst: inst, stop: make(chan struct{})}
	}, nil)
	done := make(chan error, 1)
	go func() { done <- mgr.Run() }()
	defer func() {
		mgr.Stop(nil)
		select {
		case <-done:
		case <-time.After(15 * time.Second):
		}
	}()
	if r, err := in.EdgePoints("p", "inst", data.Points{{Type: data.PointTypeTombstone, Time: now, Origin: "h"}, {Type: data.PointTypeNodeType, Text: "probe", Origin: "h"}}); err != nil || r != "" {
		t.Fatalf("%q %v", r, err)
	}
	deadline := time.Now().Add(15 * time.Second)
	for {
		rec.mu.Lock()
		c, ok := rec.latest["inst>p"]
		running := rec.running["inst>p"]
		l := renderLog(rec.log)
		rec.mu.Unlock()
		if hookErr != "" {
			t.Fatalf("write from the constructor: %s", hookErr)
		}
		if ok && running == 1 && len(c.Kids) == 1 && c.Kids[0].ID == "k" {
			return
		}
		if time.Now().After(deadline) {
			t.Fatalf("child k was added to node p while its client was being constructed; 15 s later the latest client has children %v (running=%d)\nlog:\n%s", c.Kids, running, l)
		}
		pb, _ := (&data.Points{{Type: data.PointTypeNodeType, Text: "verif"}}).ToPb()
		in.NC.Publish("up.root.verif", pb)
		in.NC.Flush()
		time.Sleep(200 * time.Millisecond)
	}
}
