// Package c14 decides property C14 (schedule windows) by comparing
// schedule.activeForTime with a reference written in integer Unix seconds.
package c14

import (
	"fmt"
	"testing"
	"time"

	"github.com/simpleiot/simpleiot/client"
	"pgregory.net/rapid"

	"verif/internal/stats"
)

func TestMain(m *testing.M) { stats.Main(m) }

// ---------------------------------------------------------------------------
// reference model (no time.Date / AddDate / Weekday)

func floorDiv(a, b int64) int64 {
	q := a / b
	if (a%b != 0) && ((a < 0) != (b < 0)) {
		q--
	}
	return q
}

// civil returns y, m, d of a day number counted from 1970-01-01
// (days-from-civil inverse, proleptic Gregorian).
func civil(z int64) (int64, int64, int64) {
	z += 719468
	era := floorDiv(z, 146097)
	doe := z - era*146097
	yoe := (doe - doe/1460 + doe/36524 - doe/146096) / 365
	y := yoe + era*400
	doy := doe - (365*yoe + yoe/4 - yoe/100)
	mp := (5*doy + 2) / 153
	d := doy - (153*mp+2)/5 + 1
	m := mp + 3
	if m > 12 {
		m -= 12
	}
	if m <= 2 {
		y++
	}
	return y, m, d
}

func dateString(day int64) string {
	y, m, d := civil(day)
	return fmt.Sprintf("%04d-%02d-%02d", y, m, d)
}

type sched struct {
	start, end int // minutes 0..1439
	wd         [7]bool
	anyWd      bool
	dates      []string
}

func (s sched) allowed(day int64) bool {
	if s.anyWd {
		w := ((day+4)%7 + 7) % 7
		if !s.wd[w] {
			return false
		}
	}
	if len(s.dates) > 0 {
		ds := dateString(day)
		ok := false
		for _, d := range s.dates {
			if d == ds {
				ok = true
			}
		}
		if !ok {
			return false
		}
	}
	return true
}

// refActive: t given as floor seconds since the epoch (sub-second part is
// irrelevant because all window bounds are whole seconds and the window is
// half-open).
func (s sched) refActive(sec int64) bool {
	day := floorDiv(sec, 86400)
	for _, D := range []int64{day - 1, day} {
		if !s.allowed(D) {
			continue
		}
		S := 86400*D + 60*int64(s.start)
		E := 86400*D + 60*int64(s.end)
		if s.end <= s.start {
			E += 86400
		}
		if S <= sec && sec < E {
			return true
		}
	}
	return false
}

func hhmm(min int, pad bool) string {
	if pad {
		return fmt.Sprintf("%02d:%02d", min/60, min%60)
	}
	return fmt.Sprintf("%d:%02d", min/60, min%60)
}

func (s sched) weekdays() []time.Weekday {
	var w []time.Weekday
	if !s.anyWd {
		return nil
	}
	for i := 0; i < 7; i++ {
		if s.wd[i] {
			w = append(w, time.Weekday(i))
		}
	}
	return w
}

func (s sched) String() string {
	return fmt.Sprintf("start=%s end=%s weekdays=%v dates=%v", hhmm(s.start, true), hhmm(s.end, true), s.weekdays(), s.dates)
}

// implActive calls the code under test.
func implActive(s sched, pad bool, t time.Time) (bool, error) {
	return client.VerifScheduleActive(hhmm(s.start, pad), hhmm(s.end, pad), s.weekdays(), s.dates, t)
}

// ---------------------------------------------------------------------------
// generators

// interesting day numbers: week, month, year ends, leap days
var anchorDays = func() []int64 {
	var out []int64
	add := func(y int, m time.Month, d int) {
		out = append(out, time.Date(y, m, d, 0, 0, 0, 0, time.UTC).Unix()/86400)
	}
	for _, y := range []int{1999, 2000, 2001, 2023, 2024, 2025, 2100} {
		add(y, 1, 1)
		add(y, 2, 28)
		add(y, 3, 1)
		add(y, 12, 31)
	}
	add(2000, 2, 29)
	add(2024, 2, 29)
	add(2023, 4, 30)
	add(2023, 5, 1)
	add(1970, 1, 1)
	add(1969, 12, 31)
	add(2038, 1, 19)
	return out
}()

func genSched(t *rapid.T) sched {
	var s sched
	s.start = rapid.IntRange(0, 1439).Draw(t, "start")
	switch rapid.IntRange(0, 5).Draw(t, "endKind") {
	case 0:
		s.end = s.start
	case 1:
		s.end = (s.start + 1) % 1440
	case 2:
		s.end = (s.start + 1439) % 1440
	default:
		s.end = rapid.IntRange(0, 1439).Draw(t, "end")
	}
	mask := rapid.IntRange(0, 127).Draw(t, "wdMask")
	if rapid.IntRange(0, 3).Draw(t, "wdNone") == 0 {
		mask = 0
	}
	for i := 0; i < 7; i++ {
		if mask&(1<<i) != 0 {
			s.wd[i] = true
			s.anyWd = true
		}
	}
	return s
}

// nonexistentFor gives a yyyy-mm-dd text that is not a calendar day and that
// time.Date-style normalisation would map onto the given day ("" if the day
// has no such spelling within two-digit fields).
func nonexistentFor(day int64) string {
	y, m, d := time.Unix(day*86400, 0).UTC().Date()
	if y < 1 || y > 9998 {
		return ""
	}
	last := func(y int, m time.Month) int { return time.Date(y, m+1, 0, 0, 0, 0, 0, time.UTC).Day() }
	switch {
	case d <= 3 && m == time.January && d == 1 && y%2 == 0:
		return fmt.Sprintf("%04d-13-%02d", y-1, d)
	case d <= 3:
		py, pm := y, m-1
		if pm == 0 {
			py, pm = y-1, time.December
		}
		return fmt.Sprintf("%04d-%02d-%02d", py, int(pm), last(py, pm)+d)
	case d == last(y, m):
		nm, ny := m+1, y
		if nm == 13 {
			nm, ny = 1, y+1
		}
		return fmt.Sprintf("%04d-%02d-00", ny, int(nm))
	}
	return ""
}

func genCase(t *rapid.T) (sched, int64, int64) {
	s := genSched(t)
	var day int64
	if rapid.Bool().Draw(t, "anchorDay") {
		day = rapid.SampledFrom(anchorDays).Draw(t, "aday") + int64(rapid.IntRange(-2, 2).Draw(t, "adayOff"))
	} else {
		day = int64(rapid.IntRange(-20000, 60000).Draw(t, "day"))
	}
	// dates near the instant's day so the filter distinguishes D from D-1
	nd := rapid.IntRange(0, 3).Draw(t, "ndates")
	if rapid.IntRange(0, 2).Draw(t, "datesNone") == 0 {
		nd = 0
	}
	for i := 0; i < nd; i++ {
		off := int64(rapid.IntRange(-2, 2).Draw(t, "dateOff"))
		if rapid.IntRange(0, 3).Draw(t, "dateKind") == 0 {
			// a list entry that names no calendar day but would "roll over" onto day+off
			// (2023-02-29 for 1 March, 2024-04-31, 2023-13-01, 2024-03-00): no day D matches it
			if ne := nonexistentFor(day + off); ne != "" {
				s.dates = append(s.dates, ne)
				continue
			}
		}
		s.dates = append(s.dates, dateString(day+off))
	}
	// instant: biased to window boundaries of D-1, D, D+1
	var sec int64
	switch rapid.IntRange(0, 3).Draw(t, "tKind") {
	case 0:
		sec = 86400*day + int64(rapid.IntRange(0, 86399).Draw(t, "sod"))
	default:
		D := day + int64(rapid.IntRange(-1, 1).Draw(t, "bD"))
		b := 86400*D + 60*int64(s.start)
		if rapid.Bool().Draw(t, "atEnd") {
			b = 86400*D + 60*int64(s.end)
			if s.end <= s.start {
				b += 86400
			}
		}
		sec = b + int64(rapid.SampledFrom([]int{-1, 0, 0, 1, -60, 60}).Draw(t, "bOff"))
	}
	nsec := int64(rapid.SampledFrom([]int{0, 0, 1, 999999999, 500000000}).Draw(t, "nsec"))
	return s, sec, nsec
}

func nontrivial(s sched, sec int64) bool {
	if s.end > s.start {
		return false
	}
	day := floorDiv(sec, 86400)
	sod := sec - 86400*day
	// after midnight inside (or at the edge of) yesterday's window, with a
	// filter that tells yesterday from today
	return sod <= 60*int64(s.end)+1 && s.allowed(day) != s.allowed(day-1)
}

func TestPropSchedule(t *testing.T) {
	rapid.Check(t, func(t *rapid.T) {
		s, sec, nsec := genCase(t)
		pad := rapid.Bool().Draw(t, "pad")
		zoneOff := rapid.IntRange(-12*3600, 14*3600).Draw(t, "zoneOffset")
		tm := time.Unix(sec, nsec).UTC()
		want := s.refActive(sec)
		got, err := implActive(s, pad, tm)
		if err != nil {
			t.Fatalf("valid schedule %v refused: %v", s, err)
		}
		if got != want {
			t.Fatalf("schedule %v at %v (unix %d.%09d): active=%v, reference says %v", s, tm, sec, nsec, got, want)
		}
		// only the UTC reading matters
		tz := tm.In(time.FixedZone("z", zoneOff))
		got2, err := implActive(s, pad, tz)
		if err != nil || got2 != want {
			t.Fatalf("schedule %v at %v expressed as %v: active=%v err=%v, reference says %v", s, tm, tz, got2, err, want)
		}
		nt := nontrivial(s, sec)
		cls := []string{}
		if s.end <= s.start {
			cls = append(cls, "wrap")
		}
		if s.anyWd {
			cls = append(cls, "weekdayFilter")
		}
		if len(s.dates) > 0 {
			cls = append(cls, "dateFilter")
		}
		if want {
			cls = append(cls, "active")
		}
		stats.Case(nt, stats.Digest(s.String(), sec, nsec), cls...)
		if nt && stats.WantSample() {
			stats.Sample(map[string]any{"schedule": s.String(), "t": tm.Format(time.RFC3339Nano), "zone_offset_s": zoneOff, "active": want})
		}
	})
}

// TestEnumSweep enumerates sub-spaces completely (no library involved):
//
//	A. all 1440x1440 (start,end) pairs without filters, at every window
//	   boundary -1 s, +0, +1 s of a reference day (thorough; quick: a
//	   stride-7 sub-grid);
//	B. all 128 weekday subsets x a grid of (start,end) x every minute of a
//	   reference week.
func TestEnumSweep(t *testing.T) {
	thorough := stats.Tier() == "thorough"
	shard, nsh := stats.Shard(), stats.NShards()
	refDay := int64(19723) // 2024-01-01, a Monday; the week contains no month end but B2 below does
	var evals, nts int64
	fail := func(s sched, sec int64, got, want bool) {
		t.Fatalf("schedule %v at unix %d (%v): active=%v, reference says %v", s, sec, time.Unix(sec, 0).UTC(), got, want)
	}
	// A
	stride := 7
	if thorough {
		stride = 1
	}
	for st := shard * stride; st < 1440; st += nsh * stride {
		for en := 0; en < 1440; en += stride {
			s := sched{start: st, end: en}
			for _, D := range []int64{refDay - 1, refDay, refDay + 1} {
				for _, b := range []int64{86400*D + 60*int64(st), 86400*D + 60*int64(en)} {
					for _, off := range []int64{-1, 0, 1} {
						sec := b + off
						want := s.refActive(sec)
						got, err := implActive(s, true, time.Unix(sec, 0).UTC())
						if err != nil {
							t.Fatalf("%v: %v", s, err)
						}
						if got != want {
							fail(s, sec, got, want)
						}
						evals++
						if en <= st {
							nts++
						}
					}
				}
			}
		}
	}
	if thorough {
		stats.Exhaustive("all 1440x1440 (start,end) pairs, no filters, +-1 s around every window boundary of three consecutive days")
	}
	// B
	grid := 240
	mstep := 7
	if thorough {
		grid = 30
		mstep = 1
	}
	for mask := 1 + shard; mask < 128; mask += nsh {
		var s sched
		s.anyWd = true
		for i := 0; i < 7; i++ {
			s.wd[i] = mask&(1<<i) != 0
		}
		for st := 0; st < 1440; st += grid {
			for en := 0; en < 1440; en += grid {
				s.start, s.end = st, en
				for m := 0; m < 7*1440; m += mstep {
					sec := 86400*refDay + 60*int64(m)
					want := s.refActive(sec)
					got, err := implActive(s, false, time.Unix(sec, 0).UTC())
					if err != nil {
						t.Fatalf("%v: %v", s, err)
					}
					if got != want {
						fail(s, sec, got, want)
					}
					evals++
					if en <= st && nontrivial(s, sec) {
						nts++
					}
				}
			}
		}
	}
	if thorough {
		stats.Exhaustive("all 127 non-empty weekday subsets x 30-minute grid of (start,end) x every minute of one week")
	}
	stats.Enumerated(evals, nts, "enumerated")
	stats.Sample(map[string]any{"enumeration": "A: (start,end) grid stride " + fmt.Sprint(stride) + " at boundary +-1s; B: weekday masks x grid " + fmt.Sprint(grid) + "min x week minutes step " + fmt.Sprint(mstep), "evaluations": evals})
}
