// Package c08 decides property C08: a running client is told of every
// foreign change to its subtree, in order, and never of its own writes.
package c08

import (
	"fmt"
	"math"
	"sort"
	"strings"
	"sync"
	"testing"
	"time"

	"github.com/nats-io/nats.go"
	"github.com/simpleiot/simpleiot/client"
	"github.com/simpleiot/simpleiot/data"
	"pgregory.net/rapid"

	"verif/internal/cfg"
	"verif/internal/fix"
	"verif/internal/stats"
)

func TestMain(m *testing.M) { fix.Quiet(); stats.Main(m) }

// Probe is the client configuration type (node type "probe").
type Probe struct {
	ID          string             `node:"id"`
	Parent      string             `node:"parent"`
	Description string             `point:"description"`
	Value       float64            `point:"value"`
	Tags        []string           `point:"tag"`
	M           map[string]float64 `point:"m"`
	Role        string             `edgepoint:"role"`
	Order       float64            `edgepoint:"order"`
	Kids        []ProbeKid         `child:"probeKid"`
}

// ProbeKid is a child node type of Probe.
type ProbeKid struct {
	ID          string  `node:"id"`
	Parent      string  `node:"parent"`
	Description string  `point:"description"`
	Value       float64 `point:"value"`
	Role        string  `edgepoint:"role"`
}

type event struct {
	Kind   string // "points" | "edge"
	Node   string
	Parent string
	Pts    []fix.P
}

func (e event) String() string {
	s := e.Kind + " " + e.Node
	if e.Parent != "" {
		s += ">" + e.Parent
	}
	for _, p := range e.Pts {
		s += fmt.Sprintf(" {%s/%s v=%v %q o=%q}", p.Type, p.Key, p.Value, p.Text, p.Origin)
	}
	return s
}

type probeClient struct {
	cfg     Probe
	rec     *recorder
	stop    chan struct{}
	stopped sync.Once
}

type recorder struct {
	gate    chan struct{} // when set: the first Points callback blocks until it is closed
	entered chan struct{} // closed when that callback has been entered
	gated   sync.Once
	mu      sync.Mutex
	events  map[string][]event // per placement (the client's parent id)
	started []Probe
	running int
}

func (r *recorder) add(parent string, e event) {
	r.mu.Lock()
	if r.events == nil {
		r.events = map[string][]event{}
	}
	r.events[parent] = append(r.events[parent], e)
	r.mu.Unlock()
}

func (r *recorder) snapshotOf(parent string) []event {
	r.mu.Lock()
	defer r.mu.Unlock()
	return append([]event{}, r.events[parent]...)
}

func (r *recorder) snapshot() []event { return r.snapshotOf("inst") }

func (c *probeClient) Run() error {
	c.rec.mu.Lock()
	c.rec.running++
	c.rec.mu.Unlock()
	<-c.stop
	c.rec.mu.Lock()
	c.rec.running--
	c.rec.mu.Unlock()
	return nil
}
func (c *probeClient) Stop(error) { c.stopped.Do(func() { close(c.stop) }) }
func conv(ps []data.Point) []fix.P {
	var out []fix.P
	for _, p := range ps {
		out = append(out, fix.FromPoint(p))
	}
	return out
}
func (c *probeClient) Points(id string, ps []data.Point) {
	if c.rec.gate != nil {
		c.rec.gated.Do(func() { close(c.rec.entered); <-c.rec.gate })
	}
	c.rec.add(c.cfg.Parent, event{Kind: "points", Node: id, Pts: conv(ps)})
}
func (c *probeClient) EdgePoints(id, parent string, ps []data.Point) {
	c.rec.add(c.cfg.Parent, event{Kind: "edge", Node: id, Parent: parent, Pts: conv(ps)})
}

// dupIdent: the batch already holds a point of p's identity (two points of one
// identity and one time in one batch would leave open which of them counts).
func dupIdent(ps data.Points, p data.Point) bool {
	k := p.Key
	if k == "" {
		k = "0"
	}
	for _, q := range ps {
		qk := q.Key
		if qk == "" {
			qk = "0"
		}
		if q.Type == p.Type && qk == k {
			return true
		}
	}
	return false
}

const (
	pID      = "P"
	sentinel = "sentinel"
)

type batch struct {
	target, parent, origin string
	pts                    data.Points
	refused                bool // carries a NaN: must be refused, nobody is told
}

func TestPropToldOfForeignChanges(t *testing.T) {
	rapid.Check(t, func(t *rapid.T) {
		in := fix.New(t, fix.Opts{ID: "inst"})
		defer in.Close()
		// timestamps are the writers' business: years in the past, around now, or in
		// the future; per identity they never decrease
		clockBase := rapid.SampledFrom([]string{"past", "now", "future"}).Draw(t, "clockBase")
		clock := int64(1800000000) * 1e9
		switch clockBase {
		case "past":
			clock = int64(1500000000) * 1e9
		case "now":
			clock = time.Now().UnixNano() - int64(2*time.Second)
		}
		tick := func() time.Time { clock += 1000; return time.Unix(0, clock) }
		// the quantifier says non-decreasing: now and then a batch carries exactly
		// the time of the batch before it
		sameAsBefore := func() time.Time { return time.Unix(0, clock) }
		mk := func(id, parent, typ string) {
			r, err := in.EdgePoints(id, parent, data.Points{{Type: data.PointTypeTombstone, Time: tick(), Origin: "setup"}, {Type: data.PointTypeNodeType, Text: typ, Origin: "setup"}})
			if err != nil || r != "" {
				t.Fatalf("setup %s: %q %v", id, r, err)
			}
		}
		mk(pID, "inst", "probe")
		mk("k1", pID, "probeKid")
		mk("k2", pID, "probeKid")
		mk("g", "k1", "variable")
		mk("sib", "inst", "variable")
		// mx: a node whose first parent lies outside P's subtree and whose second
		// parent lies inside it -- it is a descendant of P all the same
		mk("mx", "sib", "variable")
		mk("mx", "k2", "variable")
		// in a third of the cases P is mirrored under a group: two clients, one per
		// placement, and both must be told everything
		placements := []string{"inst"}
		if rapid.IntRange(0, 2).Draw(t, "mirrored") == 0 {
			mk("grp", "inst", data.NodeTypeGroup)
			mk(pID, "grp", "probe")
			placements = append(placements, "grp")
		}
		if r, err := in.NodePoints(pID, data.Points{{Type: "description", Text: "start", Time: tick(), Origin: "setup"}, {Type: "tag", Key: "0", Text: "t0", Time: tick(), Origin: "setup"}}); err != nil || r != "" {
			t.Fatalf("setup points: %q %v", r, err)
		}

		rec := &recorder{}
		mnc, err := in.Connect()
		if err != nil {
			t.Fatalf("connect: %v", err)
		}
		defer mnc.Close()
		mgr := client.NewManager(mnc, func(_ *nats.Conn, c Probe) client.Client {
			rec.mu.Lock()
			rec.started = append(rec.started, c)
			rec.mu.Unlock()
			return &probeClient{cfg: c, rec: rec, stop: make(chan struct{})}
		}, nil)
		mdone := make(chan error, 1)
		go func() { mdone <- mgr.Run() }()
		defer func() {
			mgr.Stop(nil)
			select {
			case <-mdone:
			case <-time.After(20 * time.Second):
				t.Fatalf("manager did not stop")
			}
		}()
		// the quantifier is over histories, not schedules: wait until P runs
		deadline := time.Now().Add(20 * time.Second)
		for {
			rec.mu.Lock()
			ok := rec.running == len(placements) && len(rec.started) == len(placements)
			rec.mu.Unlock()
			if ok {
				break
			}
			if time.Now().After(deadline) {
				t.Fatalf("client for P did not start")
			}
			time.Sleep(time.Millisecond)
		}
		// the client's Run may be entered a moment before the manager has subscribed
		// to up.P.>: send foreign warm-up batches until one is delivered, so that the
		// history proper starts with the subscription in place (the quantifier is
		// over histories, not start-up schedules)
		warm := 0
		for {
			warm++
			w := data.Points{{Type: "other", Text: fmt.Sprintf("warmup-%d", warm), Time: tick(), Origin: "warmup"}}
			if r, err := fix.Write(in.NC, "p."+pID, w); err != nil || r != "" {
				t.Fatalf("warm-up write: %q %v", r, err)
			}
			seen := false
			for i := 0; i < 200 && !seen; i++ {
				n := 0
				for _, pl := range placements {
					for _, e := range rec.snapshotOf(pl) {
						if len(e.Pts) == 1 && e.Pts[0].Text == w[0].Text {
							n++
							break
						}
					}
				}
				seen = n == len(placements)
				if !seen {
					time.Sleep(time.Millisecond)
				}
			}
			if seen {
				break
			}
			if warm > 50 {
				t.Fatalf("the running client is never told of foreign writes to its node")
			}
		}
		base := map[string]int{}
		for _, pl := range placements {
			base[pl] = len(rec.snapshotOf(pl))
		}

		nodeTargets := []string{pID, "k1", "k2", "g", "sib", "inst", "mx"}
		edgeTargets := [][2]string{{"k1", pID}, {"k2", pID}, {pID, "inst"}, {"g", "k1"}, {"sib", "inst"}}
		if len(placements) > 1 {
			edgeTargets = append(edgeTargets, [2]string{pID, "grp"})
		}
		origins := []string{"", pID, "k1", "sib", "user-x"}
		sameTimeUsed, listShrunk := false, false
		nb := rapid.IntRange(10, 40).Draw(t, "nbatches")
		var batches []batch
		// lists are written the way a client's DiffPoints writes them: dense (an entry is
		// overwritten or appended) and shrunk from the tail by tombstoned points that come in one
		// batch; decode.go states that deletions spread over several merges need not trim
		// completely, so only this shape makes "folded = stored" a claim the code makes
		tagLen := map[string]int{pID: 1}
		for i := 0; i < nb; i++ {
			b := batch{origin: rapid.SampledFrom(origins).Draw(t, "origin")}
			edge := rapid.IntRange(0, 4).Draw(t, "edgeBatch") == 0
			tickB := tick
			oneInstant := false
			tagLenBefore := 0
			if i > 0 && rapid.IntRange(0, 5).Draw(t, "sameTime") == 0 {
				tickB = sameAsBefore
				sameTimeUsed, oneInstant = true, true
			}
			n := rapid.IntRange(1, 4).Draw(t, "npts")
			if edge {
				e := rapid.SampledFrom(edgeTargets).Draw(t, "edge")
				b.target, b.parent = e[0], e[1]
				for k := 0; k < n; k++ {
					p := data.Point{Type: rapid.SampledFrom([]string{"role", "order", "other"}).Draw(t, "etype"), Time: tickB(), Origin: b.origin}
					p.Text = rapid.SampledFrom([]string{"admin", "user", ""}).Draw(t, "etext")
					p.Value = float64(rapid.IntRange(0, 9).Draw(t, "evalue"))
					if oneInstant && dupIdent(b.pts, p) {
						continue
					}
					b.pts = append(b.pts, p)
				}
			} else {
				b.target = rapid.SampledFrom(nodeTargets).Draw(t, "target")
				tagLenBefore = tagLen[b.target]
				shrunk, tagged := false, false
				for k := 0; k < n; k++ {
					p := data.Point{Type: rapid.SampledFrom([]string{"description", "value", "tag", "m", "other"}).Draw(t, "ptype"), Time: tickB(), Origin: b.origin}
					if p.Type == "tag" && (oneInstant || shrunk) {
						p.Type = "description"
					}
					switch p.Type {
					case "tag":
						L := tagLen[b.target]
						if L > 0 && !tagged && rapid.IntRange(0, 2).Draw(t, "shrinkList") == 0 {
							// the last 1-3 entries are deleted, in any key order
							keys := make([]int, rapid.IntRange(1, min(L, 3)).Draw(t, "shrinkBy"))
							for i := range keys {
								keys[i] = L - 1 - i
							}
							for _, key := range rapid.Permutation(keys).Draw(t, "shrinkOrder") {
								b.pts = append(b.pts, data.Point{Type: "tag", Key: fmt.Sprint(key), Tombstone: 1, Time: tickB(), Origin: b.origin})
							}
							tagLen[b.target] = L - len(keys)
							shrunk = true
							listShrunk = true
							continue
						}
						key := rapid.IntRange(0, min(L, 3)).Draw(t, "tagKey")
						p.Key = fmt.Sprint(key)
						if key == L {
							tagLen[b.target] = L + 1
						}
						tagged = true
					case "m":
						p.Key = rapid.SampledFrom([]string{"a", "b", ""}).Draw(t, "mKey")
						if rapid.IntRange(0, 3).Draw(t, "mDeleted") == 0 {
							p.Tombstone = 1
						}
					}
					p.Text = rapid.SampledFrom([]string{"x", "y", "hello", ""}).Draw(t, "ptext")
					p.Value = float64(rapid.IntRange(-5, 5).Draw(t, "pvalue"))
					if oneInstant && dupIdent(b.pts, p) {
						continue
					}
					b.pts = append(b.pts, p)
				}
			}
			// one batch in twelve carries a value the store cannot represent: the
			// store refuses it as a whole (C05), so nobody is told of any of it
			if rapid.IntRange(0, 11).Draw(t, "refusedBatch") == 0 {
				b.pts[rapid.IntRange(0, len(b.pts)-1).Draw(t, "nanAt")].Value = math.NaN()
				b.refused = true
				if !edge {
					tagLen[b.target] = tagLenBefore
				}
			}
			batches = append(batches, b)
		}
		// sentinel: a foreign batch to P that must be delivered; when it arrives everything before it has been handled
		batches = append(batches, batch{target: pID, origin: sentinel, pts: data.Points{{Type: "other", Text: sentinel, Time: tick(), Origin: sentinel}}})

		type exp struct {
			ev       event
			optional bool
		}
		var expected []exp
		inSubtree := map[string]bool{pID: true, "k1": true, "k2": true, "g": true, "mx": true}
		outcomes := map[string]bool{}
		folded := []batch{}
		for _, b := range batches {
			subj := "p." + b.target
			if b.parent != "" {
				subj += "." + b.parent
			}
			r, err := fix.Write(in.NC, subj, b.pts)
			if b.refused {
				if err != nil || r == "" {
					t.Fatalf("write %s with a NaN value was not refused: %q %v", subj, r, err)
				}
				if inSubtree[b.target] && b.origin != pID && !(b.origin == "" && b.target == pID) {
					outcomes["refusedForeignWrite"] = true
				}
				continue
			}
			if err != nil || r != "" {
				t.Fatalf("write %s: %q %v", subj, r, err)
			}
			own := (b.origin == "" && b.target == pID) || b.origin == pID
			switch {
			case !inSubtree[b.target]:
				outcomes["outsideSubtree"] = true
			case b.parent == "":
				if own {
					outcomes["ownWrite"] = true
				} else {
					expected = append(expected, exp{ev: event{Kind: "points", Node: b.target, Pts: conv(b.pts)}})
					outcomes["foreignNodePoints"] = true
				}
				folded = append(folded, b)
			default:
				// non-structural edge points are passed through; for self-authored ones
				// the statement's echo clause and the pass-through disagree: either
				expected = append(expected, exp{ev: event{Kind: "edge", Node: b.target, Parent: b.parent, Pts: conv(b.pts)}, optional: own})
				if own {
					outcomes["ownEdgePoints"] = true
				} else {
					outcomes["foreignEdgePoints"] = true
				}
				folded = append(folded, b)
			}
		}
		// wait for the sentinel
		var got []event
		for _, pl := range placements {
			deadline = time.Now().Add(20 * time.Second)
			for {
				evs := rec.snapshotOf(pl)
				if n := len(evs); n > 0 && len(evs[n-1].Pts) == 1 && evs[n-1].Pts[0].Text == sentinel {
					break
				}
				if time.Now().After(deadline) {
					t.Fatalf("the client of placement %s>P was never told of the final foreign batch (got %d events)\n%s", pl, len(evs), render(evs))
				}
				time.Sleep(time.Millisecond)
			}
			g := rec.snapshotOf(pl)[base[pl]:]
			if pl == "inst" {
				got = g
			}
			// exact sequence, optional entries may be absent
			gi := 0
			for _, e := range expected {
				if gi < len(g) && g[gi].String() == e.ev.String() {
					gi++
					continue
				}
				if e.optional {
					continue
				}
				have := "<nothing>"
				if gi < len(g) {
					have = g[gi].String()
				}
				t.Fatalf("client of placement %s>P, delivery %d: expected %s\n          got      %s\nall deliveries:\n%s", pl, gi, e.ev, have, render(g))
			}
			if gi != len(g) {
				t.Fatalf("the client of placement %s>P was told of something it should not have been: %s\nall deliveries:\n%s", pl, g[gi], render(g))
			}
		}
		rec.mu.Lock()
		restarts := len(rec.started)
		var start Probe
		for _, c := range rec.started {
			if c.Parent == "inst" {
				start = c
			}
		}
		rec.mu.Unlock()
		if restarts != len(placements) {
			t.Fatalf("%d clients were constructed for %d placements although no structural change was made", restarts, len(placements))
		}
		// folding what it was told (and what it wrote itself) into the start configuration gives what the store holds
		x := start
		for _, b := range folded {
			if b.parent == "" {
				if b.target != "g" && b.target != "mx" { // grandchildren are not part of the configuration
					if err := data.MergePoints(b.target, b.pts, &x); err != nil {
						t.Fatalf("MergePoints(%s): %v", b.target, err)
					}
				}
			} else if b.target != "g" && !(b.target == pID && b.parent == "grp") {
				if err := data.MergeEdgePoints(b.target, b.parent, b.pts, &x); err != nil {
					t.Fatalf("MergeEdgePoints(%s,%s): %v", b.target, b.parent, err)
				}
			}
		}
		ns, err := in.Get("inst", pID, false)
		if err != nil || len(ns) != 1 {
			t.Fatalf("read P: %v %v", ns, err)
		}
		kids, err := in.Get(pID, "all", false)
		if err != nil {
			t.Fatalf("read kids: %v", err)
		}
		nec := data.NodeEdgeChildren{NodeEdge: ns[0]}
		for _, k := range kids {
			nec.Children = append(nec.Children, data.NodeEdgeChildren{NodeEdge: k})
		}
		var stored Probe
		if err := data.Decode(nec, &stored); err != nil {
			t.Fatalf("Decode of the stored node: %v", err)
		}
		sortKids(&x)
		sortKids(&stored)
		if !cfg.Equiv(x, stored) {
			t.Fatalf("folded configuration differs from the store:\n folded %+v\n stored %+v", x, stored)
		}
		var cls []string
		for o := range outcomes {
			cls = append(cls, o)
		}
		cls = append(cls, "clock:"+clockBase)
		if sameTimeUsed {
			cls = append(cls, "batchWithTheTimeOfTheOneBefore")
		}
		if listShrunk {
			cls = append(cls, "listShrunkFromTheTail")
		}
		sort.Strings(cls)
		if len(placements) > 1 {
			cls = append(cls, "mirroredClientNode")
		}
		nt := outcomes["outsideSubtree"] && outcomes["ownWrite"] && outcomes["foreignNodePoints"] && outcomes["foreignEdgePoints"]
		stats.Case(nt, stats.Digest(render(got)), cls...)
		if nt && stats.WantSample() {
			r := strings.Split(render(got), "\n")
			if len(r) > 8 {
				r = append(r[:8], "...")
			}
			stats.Sample(map[string]any{"batches": len(batches), "deliveries": len(got), "first": r})
		}
	})
}

func sortKids(p *Probe) {
	sort.Slice(p.Kids, func(i, j int) bool { return p.Kids[i].ID < p.Kids[j].ID })
}

func render(evs []event) string {
	var s []string
	for i, e := range evs {
		s = append(s, fmt.Sprintf("%3d %s", i, e))
	}
	return strings.Join(s, "\n")
}

// TestEnumBurstWhileClientBusy: a client that is busy in a callback while
// hundreds of foreign batches are accepted is told of all of them, in order,
// once it returns (sequences of any length; nothing may be dropped on the way
// to a slow client).
func TestEnumBurstWhileClientBusy(t *testing.T) {
	for _, n := range []int{700, 1500} {
		in := fix.New(t, fix.Opts{ID: "inst"})
		clock := time.Now().UnixNano() - int64(time.Minute)
		tick := func() time.Time { clock += 1000; return time.Unix(0, clock) }
		if r, err := in.EdgePoints(pID, "inst", data.Points{{Type: data.PointTypeTombstone, Time: tick(), Origin: "setup"}, {Type: data.PointTypeNodeType, Text: "probe", Origin: "setup"}}); err != nil || r != "" {
			t.Fatalf("setup: %q %v", r, err)
		}
		rec := &recorder{gate: make(chan struct{}), entered: make(chan struct{})}
		mnc, err := in.Connect()
		if err != nil {
			t.Fatal(err)
		}
		mgr := client.NewManager(mnc, func(_ *nats.Conn, c Probe) client.Client {
			return &probeClient{cfg: c, rec: rec, stop: make(chan struct{})}
		}, nil)
		mdone := make(chan error, 1)
		go func() { mdone <- mgr.Run() }()
		// warm-up until the subscription is in place: the first delivered batch parks the client in its callback
		deadline := time.Now().Add(20 * time.Second)
		for parked := false; !parked; {
			if r, err := fix.Write(in.NC, "p."+pID, data.Points{{Type: "other", Text: "warmup", Time: tick(), Origin: "warmup"}}); err != nil || r != "" {
				t.Fatalf("warm-up write: %q %v", r, err)
			}
			select {
			case <-rec.entered:
				parked = true
			case <-time.After(100 * time.Millisecond):
			}
			if time.Now().After(deadline) {
				t.Fatalf("the client was never told of a warm-up batch")
			}
		}
		for i := 0; i < n; i++ {
			if r, err := fix.Write(in.NC, "p."+pID, data.Points{{Type: "value", Value: float64(i), Time: tick(), Origin: "writer"}}); err != nil || r != "" {
				t.Fatalf("write %d: %q %v", i, r, err)
			}
		}
		close(rec.gate)
		deadline = time.Now().Add(30 * time.Second)
		var vals []float64
		for {
			vals = vals[:0]
			for _, e := range rec.snapshot() {
				for _, p := range e.Pts {
					if p.Type == "value" {
						vals = append(vals, p.Value)
					}
				}
			}
			if len(vals) >= n || time.Now().After(deadline) {
				break
			}
			time.Sleep(10 * time.Millisecond)
		}
		if len(vals) != n {
			t.Fatalf("%d foreign batches were accepted while the client was busy in a callback; it was told of %d of them", n, len(vals))
		}
		for i, v := range vals {
			if v != float64(i) {
				t.Fatalf("batch %d of the burst was delivered out of order (value %v)", i, v)
			}
		}
		mgr.Stop(nil)
		select {
		case <-mdone:
		case <-time.After(20 * time.Second):
			t.Fatalf("manager did not stop")
		}
		mnc.Close()
		in.Close()
		stats.Enumerated(1, 1, "burstWhileClientBusy")
	}
}
