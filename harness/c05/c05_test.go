// Package c05 decides property C05: the graph stays a rooted DAG, writes
// that must be refused are answered with an error and leave no trace.
package c05

import (
	"strings"
	"testing"

	"pgregory.net/rapid"

	"verif/internal/fix"
	"verif/internal/sm"
	"verif/internal/stats"
)

func TestMain(m *testing.M) { fix.Quiet(); stats.Main(m) }

func TestPropRefusals(t *testing.T) {
	rapid.Check(t, func(t *rapid.T) {
		m := sm.New(t, sm.Opts{Refusals: true})
		defer m.Close()
		t.Repeat(m.Actions(m.Check))
		if m.Abandoned {
			return // inconclusive (counted by the machine), neither a pass nor a failure
		}
		shape := m.Shape()
		nt := (m.Flags["cycleThroughDeleted"] || m.Flags["nanInMiddle"]) && len(m.G.Edges) >= 4
		stats.Case(nt, stats.Digest(m.History()), shape...)
		stats.Class("refusalsIssued", int64(m.Count["refusals"]))
		if nt && stats.WantSample() {
			var h []string
			for _, l := range m.Log {
				if strings.Contains(l, "REFUSAL") {
					h = append(h, l)
				}
			}
			stats.Sample(map[string]any{"steps": len(m.Log), "edges": len(m.G.Edges), "shape": strings.Join(shape, ","), "refusals": h})
		}
	})
}
