package c05

import (
	"math"
	"testing"
	"time"

	"github.com/simpleiot/simpleiot/data"

	"verif/internal/fix"
)

func at(ns int64) time.Time { return time.Unix(0, 1800000000000000000+ns) }

func edge(typ string, ns int64) data.Points {
	return data.Points{{Type: data.PointTypeTombstone, Time: at(ns)}, {Type: data.PointTypeNodeType, Text: typ, Time: at(ns + 1)}}
}

type harness struct {
	t  *testing.T
	in *fix.Inst
}

func (h harness) ok(id, parent string, pts data.Points) {
	h.t.Helper()
	subj := "p." + id
	if parent != "" {
		subj += "." + parent
	}
	r, err := fix.Write(h.in.NC, subj, pts)
	if err != nil || r != "" {
		h.t.Fatalf("%s: %q %v", subj, r, err)
	}
}

// refused: error reply, no rebroadcast, dump unchanged, next write works
func (h harness) refused(id, parent string, pts data.Points, extra [][2]string) {
	h.t.Helper()
	before, err := fix.Dump(h.in.NC, extra)
	if err != nil {
		h.t.Fatal(err)
	}
	sub, _ := h.in.NC.SubscribeSync("up.>")
	defer sub.Unsubscribe()
	subj := "p." + id
	if parent != "" {
		subj += "." + parent
	}
	r, err := fix.Write(h.in.NC, subj, pts)
	if err != nil {
		h.t.Fatalf("%s: no reply: %v", subj, err)
	}
	if r == "" {
		h.t.Fatalf("%s was acknowledged, must be refused", subj)
	}
	if m, err := sub.NextMsg(50 * time.Millisecond); err == nil {
		h.t.Fatalf("refused write rebroadcast on %s", m.Subject)
	}
	after, err := fix.Dump(h.in.NC, extra)
	if err != nil {
		h.t.Fatalf("unreadable after refused write: %v", err)
	}
	if a, b := fix.DumpString(before), fix.DumpString(after); a != b {
		h.t.Fatalf("refused write left a trace:\n%s\n---\n%s", a, b)
	}
	h.ok("inst", "", data.Points{{Type: "after", Time: time.Now()}})
}

func TestRegressRefusedEdgeWriteNotRebroadcast(t *testing.T) {
	in := fix.New(t, fix.Opts{ID: "inst"})
	defer in.Close()
	h := harness{t, in}
	h.refused("inst", "root", data.Points{{Type: data.PointTypeTombstone, Value: 1, Time: at(1)}}, nil)
	h.refused("inst", "root", data.Points{{Type: "description", Text: "d", Time: at(1)}, {Type: data.PointTypeTombstone, Key: "0", Value: 1, Time: at(1)}}, nil)
	h.refused("n9", "inst", data.Points{{Type: "role", Text: "x", Time: at(2)}}, nil)
	h.refused("n9", "n9", edge("t", 3), nil)
}

func TestRegressNaNRefused(t *testing.T) {
	in := fix.New(t, fix.Opts{ID: "inst"})
	defer in.Close()
	h := harness{t, in}
	h.ok("a", "inst", edge("t", 0))
	h.refused("a", "", data.Points{{Type: "x", Time: at(5), Value: 1}, {Type: "y", Time: at(6), Value: math.NaN()}, {Type: "z", Time: at(7), Value: 2}}, nil)
	h.refused("a", "inst", data.Points{{Type: "y", Time: at(8), Value: math.Float64frombits(0xfff8000000000001)}}, nil)
}

func TestRegressCycleRefused(t *testing.T) {
	in := fix.New(t, fix.Opts{ID: "inst"})
	defer in.Close()
	h := harness{t, in}
	h.ok("a", "inst", edge("t", 0))
	h.ok("b", "a", edge("t", 10))
	h.ok("c", "b", edge("t", 20))
	// through live edges
	h.refused("a", "c", edge("t", 30), nil)
	// through a deleted edge
	h.ok("c", "b", data.Points{{Type: data.PointTypeTombstone, Value: 1, Time: at(40)}})
	h.refused("a", "c", edge("t", 50), nil)
	// via a detached parent: x under p, then p under x
	h.ok("x", "p", edge("t", 60))
	h.refused("p", "x", edge("t", 70), [][2]string{{"p", "x"}})
}

// Ids are free text: a node whose id (or whose parent's id) contains a single
// quote must be readable like any other (the node queries were once built
// with Sprintf and failed with "SQL logic error: near ...: syntax error").
func TestRegressQuoteInIDs(t *testing.T) {
	in := fix.New(t, fix.Opts{ID: "inst"})
	h := harness{t, in}
	h.ok("n'6", "inst", edge("group", 10))
	h.ok("n'6", "", data.Points{{Type: "description", Text: "it's", Time: at(20)}})
	h.ok("k'OR'1'='1", "n'6", edge("variable", 30))
	for _, q := range [][3]string{{"inst", "n'6", "n'6"}, {"all", "n'6", "n'6"}, {"n'6", "all", "k'OR'1'='1"}, {"n'6", "k'OR'1'='1", "k'OR'1'='1"}} {
		ns, err := in.Get(q[0], q[1], false)
		if err != nil {
			t.Fatalf("read parent %q id %q: %v", q[0], q[1], err)
		}
		if len(ns) != 1 || ns[0].ID != q[2] {
			t.Fatalf("read parent %q id %q: got %v, expected exactly node %q", q[0], q[1], ns, q[2])
		}
	}
	// a quote in the request must not widen the answer either
	if ns, err := in.Get("inst", "x'OR'1'='1", false); err != nil || len(ns) != 0 {
		t.Fatalf("read of an id that does not exist returned %v %v", ns, err)
	}
}
