// Package c20 decides property C20 (compiled with -race): concurrent use is
// safe - every request answered, read-your-writes, monotonic reads, final
// content equals the newest-wins model with consistent hashes, no data race,
// clean stop and reopen.
package c20

import (
	"context"
	"fmt"
	"math"
	"runtime"
	"sort"
	"strings"
	"sync"
	"sync/atomic"
	"testing"
	"time"

	"github.com/nats-io/nats.go"
	"github.com/simpleiot/simpleiot/data"
	"pgregory.net/rapid"

	"verif/internal/fix"
	"verif/internal/model"
	"verif/internal/stats"
)

func TestMain(m *testing.M) { fix.Quiet(); stats.Main(m) }

type op struct {
	kind   string // nodeWrite edgeWrite read verify create rootSwap pause
	node   string
	parent string
	ident  int
	pause  int
}

type target struct{ id, parent string }

var (
	sharedNodes = []string{"s0", "s1", "s2"}
	identTypes  = []string{"value", "temp", "state"}
)

func TestPropConcurrent(t *testing.T) {
	rapid.Check(t, func(t *rapid.T) {
		procs := rapid.SampledFrom([]int{1, 2, 4, 8, 16}).Draw(t, "gomaxprocs")
		old := runtime.GOMAXPROCS(procs)
		defer runtime.GOMAXPROCS(old)
		in := fix.New(t, fix.Opts{ID: "inst"})
		closed := false
		defer func() {
			if !closed {
				in.Close()
			}
		}()
		// shared nodes; s1 is mirrored under s0
		mk := func(id, parent string) {
			r, err := in.EdgePoints(id, parent, data.Points{{Type: data.PointTypeTombstone, Time: time.Unix(0, 1)}, {Type: data.PointTypeNodeType, Text: "variable"}})
			if err != nil || r != "" {
				t.Fatalf("setup: %q %v", r, err)
			}
		}
		mk("s0", "inst")
		mk("s1", "inst")
		mk("s2", "s0")
		mk("s1", "s0")
		edges := []target{{"s0", "inst"}, {"s1", "inst"}, {"s2", "s0"}, {"s1", "s0"}}

		rootChurn := rapid.IntRange(0, 3).Draw(t, "rootChurn") == 0
		stopMid := rapid.IntRange(0, 3).Draw(t, "stopMidLoad") == 0
		nw := rapid.IntRange(4, 10).Draw(t, "workers")
		// in a third of the cases one worker sends a burst: hundreds of writes
		// without waiting for the replies (many clients at once, as far as the
		// store can tell); every one of them has to be answered
		burstSize := 0
		if rapid.IntRange(0, 2).Draw(t, "burst") == 0 {
			// writes cost tens of milliseconds each in a race-detector build on one
			// core, and the store serves one request at a time: a burst of writes is
			// kept at 120 so that the other workers' requests are not starved beyond
			// their own time-out; reads are cheap
			burstSize = rapid.SampledFrom([]int{-300, -600, 120}).Draw(t, "burstSize") // negative: reads
		}
		progs := make([][]op, nw)
		for w := range progs {
			n := rapid.IntRange(20, 60).Draw(t, "nops")
			for i := 0; i < n; i++ {
				var o op
				kinds := []string{"nodeWrite", "nodeWrite", "edgeWrite", "read", "read", "verify", "create", "pause", "maint", "login", "refused"}
				if rootChurn {
					if w == 0 {
						kinds = []string{"rootSwap", "rootSwap", "rootSwap", "nodeWrite", "pause"}
					} else {
						kinds = []string{"readRoot", "readRoot", "readRoot", "read", "nodeWrite", "verify", "edgeWrite", "refused"}
					}
				}
				o.kind = rapid.SampledFrom(kinds).Draw(t, "kind")
				if !rootChurn && w == 1 && i == n/2 && burstSize != 0 {
					o.kind = "burst"
				}
				o.node = rapid.SampledFrom(sharedNodes).Draw(t, "node")
				e := rapid.SampledFrom(edges).Draw(t, "edge")
				if o.kind == "edgeWrite" {
					o.node, o.parent = e.id, e.parent
				}
				o.ident = rapid.IntRange(0, len(identTypes)-1).Draw(t, "ident")
				o.pause = rapid.IntRange(0, 3).Draw(t, "pause")
				progs[w] = append(progs[w], o)
			}
		}

		type ackd struct {
			target string
			p      fix.P
			acked  bool
		}
		var mu sync.Mutex
		var sent []ackd
		var errs []string
		fail := func(f string, a ...any) {
			mu.Lock()
			if len(errs) < 5 {
				errs = append(errs, fmt.Sprintf(f, a...))
			}
			mu.Unlock()
		}
		stopping := make(chan struct{})
		isStopping := func() bool {
			select {
			case <-stopping:
				return true
			default:
				return false
			}
		}
		// requests still in flight when the store stops may never be answered (their
		// messages are dropped with the subscription): give up on them shortly after
		// the stop began instead of waiting for the full time-out
		// "Unanswered" must not be a matter of how slow the machine is: the store
		// serves one request after the other, so while it keeps answering anybody
		// (lastProgress) a waiting request is merely queued behind others. A request
		// counts as unanswered once the store has answered nobody for a whole
		// request time-out.
		var lastProgress atomic.Int64
		lastProgress.Store(time.Now().UnixNano())
		progress := func() { lastProgress.Store(time.Now().UnixNano()) }
		request := func(nc *nats.Conn, subj string, payload []byte) (*nats.Msg, error) {
			inbox := nc.NewRespInbox()
			sub, err := nc.SubscribeSync(inbox)
			if err != nil {
				return nil, err
			}
			defer sub.Unsubscribe()
			if err := nc.PublishRequest(subj, inbox, payload); err != nil {
				return nil, err
			}
			start := time.Now()
			var stopSeen time.Time
			for {
				m, err := sub.NextMsg(100 * time.Millisecond)
				if err == nil {
					progress()
					return m, nil
				}
				if err != nats.ErrTimeout {
					return nil, err
				}
				if isStopping() {
					if stopSeen.IsZero() {
						stopSeen = time.Now()
					} else if time.Since(stopSeen) > 300*time.Millisecond {
						return nil, context.Canceled
					}
				}
				idle := time.Since(time.Unix(0, lastProgress.Load()))
				if time.Since(start) > fix.ReqTimeout && idle > fix.ReqTimeout {
					return nil, fmt.Errorf("no reply within %v, and the store answered nobody during the last %v", time.Since(start).Round(time.Second), idle.Round(time.Second))
				}
			}
		}
		write := func(nc *nats.Conn, subj string, pts data.Points) (string, error) {
			b, err := pts.ToPb()
			if err != nil {
				return "", err
			}
			m, err := request(nc, subj, b)
			if err != nil {
				return "", err
			}
			return string(m.Data), nil
		}
		getNodes := func(nc *nats.Conn, parent, id string, del bool) ([]data.NodeEdge, error) {
			var req data.Points
			if del {
				req = append(req, data.Point{Type: data.PointTypeTombstone, Value: 1})
			}
			b, _ := req.ToPb()
			m, err := request(nc, "nodes."+parent+"."+id, b)
			if err != nil {
				return nil, err
			}
			return data.PbDecodeNodesRequest(m.Data)
		}
		var bursts atomic.Bool
		overlaps := 0
		var inflightWrites int32
		_ = inflightWrites

		var wg sync.WaitGroup
		base := int64(1800000000) * 1e9
		for w := 0; w < nw; w++ {
			nc, err := in.Connect()
			if err != nil {
				t.Fatalf("connect: %v", err)
			}
			defer nc.Close()
			wg.Add(1)
			go func(w int, nc *nats.Conn, prog []op) {
				defer wg.Done()
				lastSeen := map[string]int64{}  // target|ident -> newest time this worker has read
				lastWrote := map[string]int64{} // target|ident -> newest time this worker got acknowledged
				seq := 0
				for _, o := range prog {
					if isStopping() && stopMid {
						return
					}
					for i := 0; i < o.pause; i++ {
						runtime.Gosched()
					}
					seq++
					ts := base + int64(seq*16+w)*1000
					switch o.kind {
					case "pause":
						time.Sleep(time.Duration(o.pause*50) * time.Microsecond)
					case "nodeWrite", "edgeWrite":
						p := data.Point{Type: identTypes[o.ident], Time: time.Unix(0, ts), Value: float64(seq), Text: fmt.Sprint("w", w), Origin: fmt.Sprint("w", w)}
						subj, tgt := "p."+o.node, o.node
						if o.kind == "edgeWrite" {
							subj += "." + o.parent
							tgt = o.parent + ">" + o.node
						}
						mu.Lock()
						idx := len(sent)
						sent = append(sent, ackd{target: tgt, p: fix.FromPoint(p)})
						mu.Unlock()
						r, err := write(nc, subj, data.Points{p})
						if err != nil {
							if !isStopping() {
								fail("worker %d: %s got no reply: %v", w, subj, err)
							}
							continue
						}
						if r != "" {
							if !isStopping() {
								fail("worker %d: valid write %s refused: %s", w, subj, r)
							}
							continue
						}
						mu.Lock()
						sent[idx].acked = true
						mu.Unlock()
						lastWrote[tgt+"|"+p.Type] = ts
					case "read":
						parent := "all"
						tgt := o.node
						ns, err := getNodes(nc, parent, o.node, true)
						if err != nil {
							if !isStopping() {
								fail("worker %d: read of %s failed: %v", w, o.node, err)
							}
							continue
						}
						if len(ns) == 0 {
							if !isStopping() {
								fail("worker %d: read of %s returned nothing", w, o.node)
							}
							continue
						}
						for _, id := range identTypes {
							var got int64
							for _, p := range ns[0].Points {
								if p.Type == id {
									got = p.Time.UnixNano()
								}
							}
							k := tgt + "|" + id
							if got < lastWrote[k] {
								fail("worker %d: read of %s/%s shows time %d although its own write at %d had been acknowledged", w, tgt, id, got, lastWrote[k])
							}
							if got < lastSeen[k] {
								fail("worker %d: successive reads of %s/%s went back in time: %d then %d", w, tgt, id, lastSeen[k], got)
							}
							if got > lastSeen[k] {
								lastSeen[k] = got
							}
						}
					case "readRoot":
						ns, err := getNodes(nc, "root", "all", false)
						if err != nil && !isStopping() {
							fail("worker %d: root read failed: %v", w, err)
						}
						_ = ns
					case "verify":
						m, err := request(nc, "admin.storeVerify", nil)
						if err != nil {
							if !isStopping() {
								fail("worker %d: storeVerify got no reply: %v", w, err)
							}
						} else if len(m.Data) != 0 && !isStopping() {
							fail("worker %d: storeVerify: %s", w, m.Data)
						}
					case "maint":
						m, err := request(nc, "admin.storeMaint", nil)
						if err != nil {
							if !isStopping() {
								fail("worker %d: storeMaint got no reply: %v", w, err)
							}
						} else if len(m.Data) != 0 && !isStopping() {
							fail("worker %d: storeMaint: %s", w, m.Data)
						}
					case "login":
						pts := data.Points{{Type: data.PointTypeEmail, Text: "admin@admin.com", Key: "0"}, {Type: data.PointTypePass, Text: "admin", Key: "0"}}
						b, _ := pts.ToPb()
						m, err := request(nc, "auth.user", b)
						if err != nil {
							if !isStopping() {
								fail("worker %d: auth.user got no reply: %v", w, err)
							}
						} else if ns, derr := data.PbDecodeNodesRequest(m.Data); !isStopping() && !rootChurn && (derr != nil || len(ns) == 0) {
							fail("worker %d: login of the admin user failed under load: %v %d nodes", w, derr, len(ns))
						}
					case "burst":
						inbox := nc.NewRespInbox()
						sub, err := nc.SubscribeSync(inbox + ".*")
						if err != nil {
							fail("worker %d: subscribe: %v", w, err)
							continue
						}
						sub.SetPendingLimits(-1, -1)
						reads := burstSize < 0
						n := burstSize
						if reads {
							n = -n
						}
						mkPoint := func(i int) data.Point {
							return data.Point{Type: identTypes[o.ident], Time: time.Unix(0, ts+int64(i)), Value: float64(i), Text: fmt.Sprint("burst", w), Origin: fmt.Sprint("w", w)}
						}
						idx0 := 0
						if !reads {
							mu.Lock()
							idx0 = len(sent)
							for i := 0; i < n; i++ {
								sent = append(sent, ackd{target: o.node, p: fix.FromPoint(mkPoint(i))})
							}
							mu.Unlock()
						}
						for i := 0; i < n; i++ {
							subj, b := "nodes.all."+o.node, []byte(nil)
							if !reads {
								bp := data.Points{mkPoint(i)}
								subj = "p." + o.node
								b, _ = bp.ToPb()
							}
							if err := nc.PublishRequest(subj, fmt.Sprintf("%s.%d", inbox, i), b); err != nil {
								fail("worker %d: publish: %v", w, err)
							}
						}
						nc.Flush()
						// the store serves one request after the other: as long as replies keep
						// coming nothing is wrong; silence for a whole request time-out is
						answered := 0
						lastReply := time.Now()
						for answered < n && time.Since(lastReply) < fix.ReqTimeout && !isStopping() {
							m, err := sub.NextMsg(200 * time.Millisecond)
							if err != nil {
								continue
							}
							answered++
							lastReply = time.Now()
							progress()
							var i int
							fmt.Sscanf(m.Subject[len(inbox)+1:], "%d", &i)
							if reads {
								if ns, err := data.PbDecodeNodesRequest(m.Data); (err != nil || len(ns) == 0) && !isStopping() {
									fail("worker %d: read %d of a burst failed: %v, %d nodes", w, i, err, len(ns))
								}
								continue
							}
							if len(m.Data) != 0 {
								if !isStopping() {
									fail("worker %d: valid write %d of a burst refused: %s", w, i, m.Data)
								}
								continue
							}
							mu.Lock()
							sent[idx0+i].acked = true
							mu.Unlock()
							if t := ts + int64(i); t > lastWrote[o.node+"|"+identTypes[o.ident]] {
								lastWrote[o.node+"|"+identTypes[o.ident]] = t
							}
						}
						sub.Unsubscribe()
						if answered < n && !isStopping() {
							fail("worker %d: only %d of %d requests (reads=%v) sent in one burst were answered; no further reply for %v", w, answered, n, reads, fix.ReqTimeout)
						}
						bursts.Store(true)
					case "refused":
						// a request the store must refuse is a request like any other: it is
						// answered (with an error), and the store goes on serving the others
						var subj string
						var pts data.Points
						switch k := (o.ident + o.pause) % 4; {
						case k == 0 && !rootChurn:
							subj, pts = "p.inst.root", data.Points{{Type: data.PointTypeTombstone, Value: 1, Time: time.Unix(0, ts)}}
						case k == 1:
							subj, pts = "p."+o.node+"."+o.node, data.Points{{Type: data.PointTypeTombstone, Time: time.Unix(0, ts)}, {Type: data.PointTypeNodeType, Text: "variable"}}
						case k == 2:
							subj, pts = "p.s0.s2", data.Points{{Type: data.PointTypeTombstone, Time: time.Unix(0, ts)}, {Type: data.PointTypeNodeType, Text: "variable"}}
						default:
							subj, pts = "p."+o.node, data.Points{{Type: "refusedNaN", Value: math.NaN(), Time: time.Unix(0, ts)}}
						}
						r, err := write(nc, subj, pts)
						if err != nil {
							if !isStopping() {
								fail("worker %d: %s (a write that must be refused) got no reply: %v", w, subj, err)
							}
						} else if r == "" && !isStopping() {
							fail("worker %d: %s %v was acknowledged although it must be refused", w, subj, pts)
						}
					case "create":
						id := fmt.Sprintf("c%dx%d", w, seq)
						r, err := write(nc, "p."+id+"."+o.node, data.Points{{Type: data.PointTypeTombstone, Time: time.Unix(0, ts)}, {Type: data.PointTypeNodeType, Text: "variable"}})
						if err != nil {
							if !isStopping() {
								fail("worker %d: create got no reply: %v", w, err)
							}
						} else if r != "" && !isStopping() {
							fail("worker %d: create refused: %s", w, r)
						}
					case "rootSwap":
						// the documented import-at-root path: a new edge under "root" becomes the instance root
						id := fmt.Sprintf("r%dx%d", w, seq)
						r, err := write(nc, "p."+id+".root", data.Points{{Type: data.PointTypeTombstone, Time: time.Unix(0, ts)}, {Type: data.PointTypeNodeType, Text: "device"}})
						if err != nil {
							if !isStopping() {
								fail("worker %d: root swap got no reply: %v", w, err)
							}
						} else if r != "" && !isStopping() {
							fail("worker %d: root swap refused: %s", w, r)
						}
					}
				}
			}(w, nc, progs[w])
		}
		allDone := make(chan struct{})
		go func() { wg.Wait(); close(allDone) }()
		if stopMid {
			// a writer that does not wait for replies keeps publishing while the store
			// stops: stopping must not depend on the senders pausing
			floodStop := make(chan struct{})
			floodDone := make(chan struct{})
			fnc, err := in.Connect()
			if err != nil {
				t.Fatalf("connect: %v", err)
			}
			go func() {
				defer close(floodDone)
				defer fnc.Close()
				fp := data.Points{{Type: "flood", Value: 1, Time: time.Unix(0, base-1), Origin: "f"}}
				b, _ := fp.ToPb()
				for {
					select {
					case <-floodStop:
						return
					default:
					}
					if fnc.Publish("p.s2", b) != nil {
						return
					}
					time.Sleep(20 * time.Microsecond)
				}
			}()
			time.Sleep(time.Duration(rapid.IntRange(1, 40).Draw(t, "stopAfterMs")) * time.Millisecond)
			close(stopping)
			err = in.StopStore(15 * time.Second)
			close(floodStop)
			<-floodDone
			if err != nil {
				t.Fatalf("%v (while another client kept publishing)", err)
			}
		}
		select {
		case <-allDone:
		case <-time.After(120 * time.Second):
			t.Fatalf("workers did not finish: a request was never answered")
		}
		mu.Lock()
		if len(errs) > 0 {
			e := strings.Join(errs, "\n")
			mu.Unlock()
			t.Fatalf("%s\n(workers=%d rootChurn=%v stopMidLoad=%v gomaxprocs=%d)", e, nw, rootChurn, stopMid, procs)
		}
		mu.Unlock()

		checkContent := func(in *fix.Inst, afterStop bool) {
			// model: newest acknowledged write per identity; unacknowledged newer ones are allowed alternatives
			type cand struct {
				acked   fix.P
				has     bool
				unacked []fix.P
			}
			want := map[string]*cand{}
			for _, s := range sent {
				k := s.target + "|" + s.p.Type
				c := want[k]
				if c == nil {
					c = &cand{}
					want[k] = c
				}
				if s.acked {
					if !c.has || s.p.TimeNs > c.acked.TimeNs {
						c.acked, c.has = s.p, true
					}
				} else {
					c.unacked = append(c.unacked, s.p)
				}
			}
			var extra [][2]string
			for _, e := range edges {
				extra = append(extra, [2]string{e.parent, e.id})
			}
			extra = append(extra, [2]string{"root", "inst"})
			d, err := fix.Dump(in.NC, extra)
			if err != nil {
				t.Fatalf("dump: %v", err)
			}
			if s := model.CheckHashes(d); s != "" {
				t.Fatalf("hashes out of step with content after the load:\n%s", s)
			}
			for k, c := range want {
				parts := strings.Split(k, "|")
				var pts []fix.P
				found := false
				for _, e := range d {
					if strings.Contains(parts[0], ">") {
						if e.Key() == parts[0] {
							pts, found = e.EdgePoints, true
						}
					} else if e.ID == parts[0] {
						pts, found = e.Points, true
					}
				}
				if !found {
					t.Fatalf("target %s not found after the load", parts[0])
				}
				var got fix.P
				has := false
				for _, p := range pts {
					if p.Type == parts[1] {
						got, has = p, true
					}
				}
				ok := false
				if c.has && has && model.SamePoint(got, c.acked, false) {
					ok = true
				}
				for _, u := range c.unacked {
					if has && model.SamePoint(got, u, false) && (!c.has || u.TimeNs > c.acked.TimeNs) {
						ok = true
					}
				}
				if !c.has && !has {
					ok = true
				}
				if !ok {
					t.Fatalf("%s: holds %v (present=%v); newest acknowledged write is %v (any=%v), unacknowledged candidates %v", k, got, has, c.acked, c.has, c.unacked)
				}
			}
		}
		if !stopMid {
			checkContent(in, false)
			if err := in.StopStore(15 * time.Second); err != nil {
				t.Fatalf("%v", err)
			}
		}
		// the same file opens again and holds the content
		dir := in.Dir
		in.NC.Close()
		in.NS.Shutdown()
		in.NS.WaitForShutdown()
		closed = true
		in2, err := fix.Start(fix.Opts{Dir: dir, ID: "inst"})
		if err != nil {
			t.Fatalf("the store file cannot be opened again after Stop: %v", err)
		}
		checkContent(in2, true)
		in2.Close()
		defer func() { _ = dir }()

		// shared-identity contention
		writers := map[string]map[string]bool{}
		for _, s := range sent {
			k := s.target + "|" + s.p.Type
			if writers[k] == nil {
				writers[k] = map[string]bool{}
			}
			writers[k][s.p.Origin] = true
		}
		contended := 0
		for _, ws := range writers {
			if len(ws) >= 2 {
				contended++
			}
		}
		_ = overlaps
		cls := []string{fmt.Sprintf("gomaxprocs%d", procs)}
		if bursts.Load() {
			cls = append(cls, "burstOf>=120RequestsInFlight")
		}
		if rootChurn {
			cls = append(cls, "rootChurn")
		}
		if stopMid {
			cls = append(cls, "stopMidLoad")
		}
		nt := contended >= 2 && nw >= 4
		var ks []string
		for k := range writers {
			ks = append(ks, k)
		}
		sort.Strings(ks)
		stats.Case(nt, stats.Digest(fmt.Sprint(progs)), cls...)
		if nt && stats.WantSample() {
			stats.Sample(map[string]any{"workers": nw, "ops_first_worker": fmt.Sprint(progs[0][:min(6, len(progs[0]))]), "identities_written_by_2+_workers": contended, "rootChurn": rootChurn, "stopMidLoad": stopMid, "gomaxprocs": procs})
		}
		os_remove(dir)
	})
}

func min(a, b int) int {
	if a < b {
		return a
	}
	return b
}
