package c20

import "os"

func os_remove(dir string) { os.RemoveAll(dir) }
