package c20

import (
	"context"
	"fmt"
	"github.com/nats-io/nats.go"
	"net"
	"os"
	"path/filepath"
	"sync"
	"testing"
	"time"

	"github.com/simpleiot/simpleiot/client"
	"github.com/simpleiot/simpleiot/data"
	"github.com/simpleiot/simpleiot/server"
	"github.com/simpleiot/simpleiot/store"

	"verif/internal/fix"
	"verif/internal/stats"
)

func freePort(t *testing.T) int {
	l, err := net.Listen("tcp", "127.0.0.1:0")
	if err != nil {
		t.Fatal(err)
	}
	defer l.Close()
	return l.Addr().(*net.TCPAddr).Port
}

// TestEnumServerStop: the whole server (bus, store, HTTP API, node manager,
// default clients) under the race detector: concurrent writes and reads, then
// Stop; Run must return and the same store file must open again.
func TestEnumServerStop(t *testing.T) {
	rounds := 2
	if stats.Tier() == "thorough" {
		rounds = 10
	}
	// one more round stops an instance that has been up for more than ten seconds
	// (actors that start late have to take part in the shutdown too)
	rounds++
	for r := 0; r < rounds; r++ {
		dir, err := os.MkdirTemp("", "c20srv-")
		if err != nil {
			t.Fatal(err)
		}
		file := filepath.Join(dir, "s.sqlite")
		natsPort := freePort(t)
		opts := server.Options{
			StoreFile:  file,
			DataDir:    dir,
			HTTPPort:   fmt.Sprint(freePort(t)),
			NatsPort:   natsPort,
			NatsServer: fmt.Sprintf("nats://127.0.0.1:%d", natsPort),
			ID:         "inst",
		}
		s, nc, err := server.NewServer(opts)
		if err != nil {
			t.Fatalf("NewServer: %v", err)
		}
		clients, _ := client.DefaultClients(nc)
		s.AddClient(clients)
		done := make(chan error, 1)
		go func() { done <- s.Run() }()
		ctx, cancel := context.WithTimeout(context.Background(), 20*time.Second)
		if err := s.WaitStart(ctx); err != nil {
			cancel()
			t.Fatalf("server did not start: %v", err)
		}
		cancel()
		var wg sync.WaitGroup
		acked := make([]int, 4)
		stop := make(chan struct{})
		for w := 0; w < 4; w++ {
			wg.Add(1)
			go func(w int) {
				defer wg.Done()
				for i := 0; ; i++ {
					select {
					case <-stop:
						return
					default:
					}
					p := data.Points{{Type: "value", Key: fmt.Sprint(w), Value: float64(i), Time: time.Unix(1700000000, int64(i)), Origin: "h"}}
					if r, err := fix.Write(nc, "p.inst", p); err == nil && r == "" {
						acked[w] = i
					}
					if _, err := client.GetNodes(nc, "root", "all", "", false); err != nil {
						return
					}
				}
			}(w)
		}
		// a writer that does not wait for replies keeps the store's queue filled while it stops
		var fnc *nats.Conn
		for dl := time.Now().Add(15 * time.Second); ; time.Sleep(50 * time.Millisecond) {
			// (the listener may come up a moment after WaitStart returns)
			if fnc, err = nats.Connect(opts.NatsServer, nats.MaxReconnects(0)); err == nil || time.Now().After(dl) {
				break
			}
		}
		if err != nil {
			t.Fatalf("flood connection: %v", err)
		}
		wg.Add(1)
		go func() {
			defer wg.Done()
			defer fnc.Close()
			nc := fnc // an outside client of its own: it goes on while the instance shuts down
			fp := data.Points{{Type: "flood", Value: 1, Time: time.Unix(1700000001, 0), Origin: "f"}}
			b, _ := fp.ToPb()
			for {
				select {
				case <-stop:
					return
				default:
				}
				if nc.Publish("p.inst", b) != nil {
					return
				}
				time.Sleep(20 * time.Microsecond)
			}
		}()
		if r == rounds-1 {
			time.Sleep(10600 * time.Millisecond)
		} else {
			time.Sleep(time.Duration(100+r*60) * time.Millisecond)
		}
		s.Stop(nil)
		select {
		case err := <-done:
			_ = err
		case <-time.After(30 * time.Second):
			t.Fatalf("Server.Run did not return within 30 s of Stop")
		}
		close(stop)
		wg.Wait()
		nc.Close()
		db, err := store.NewSqliteDb(file, "inst")
		if err != nil {
			t.Fatalf("the store file cannot be opened again after the server stopped: %v", err)
		}
		db.Close()
		// every acknowledged write is there
		in, err := fix.Start(fix.Opts{Dir: dir, ID: "inst"})
		if err != nil {
			t.Fatalf("reopen: %v", err)
		}
		ns, err := in.Get("root", "all", false)
		if err != nil || len(ns) != 1 {
			t.Fatalf("root after restart: %v %v", ns, err)
		}
		for w := 0; w < 4; w++ {
			p, ok := ns[0].Points.Find("value", fmt.Sprint(w))
			if acked[w] > 0 && (!ok || int(p.Value) < acked[w]) {
				t.Fatalf("worker %d: write %d was acknowledged, after restart the point holds %v (found %v)", w, acked[w], p.Value, ok)
			}
		}
		in.Close()
		os.RemoveAll(dir)
	}
	stats.Enumerated(int64(rounds), int64(rounds), "fullServerStop")
	stats.Sample(map[string]any{"enumeration": "full server (bus, store, HTTP API, node manager, default clients) with 4 concurrent writers, stopped mid-load", "rounds": rounds})
}
