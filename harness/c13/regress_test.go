package c13

import (
	"testing"
	"time"

	"github.com/nats-io/nats.go"
	"github.com/simpleiot/simpleiot/client"
	"github.com/simpleiot/simpleiot/data"
)

// text conditions compare the point text
func TestRegressTextOperators(t *testing.T) {
	mk := func(op, want string) *refCond {
		return &refCond{cfg: client.Condition{ID: "c", ConditionType: data.PointValuePointValue, ValueType: data.PointValueText, Operator: op, ValueText: want}}
	}
	for _, tc := range []struct {
		op, want, text string
		active         bool
	}{{"=", "on", "on", true}, {"=", "on", "ON", false}, {"!=", "on", "off", true}, {"!=", "on", "on", false}, {"contains", "alarm", "no alarm", true}, {"contains", "alarm", "ok", false}} {
		_, a := mk(tc.op, tc.want).eval("n", data.Point{Type: "value", Text: tc.text})
		if a != tc.active {
			t.Fatalf("reference: %q %s %q = %v", tc.text, tc.op, tc.want, a)
		}
	}
}

// end to end: a rule with one text condition follows the point text
func TestRegressTextConditionEndToEnd(t *testing.T) {
	ns := server(t)
	defer func() { ns.Shutdown(); ns.WaitForShutdown() }()
	ncRule, err := nats.Connect("", nats.InProcessServer(ns))
	if err != nil {
		t.Fatal(err)
	}
	defer ncRule.Close()
	ncH, err := nats.Connect("", nats.InProcessServer(ns))
	if err != nil {
		t.Fatal(err)
	}
	defer ncH.Close()
	sub, _ := ncH.SubscribeSync("p.*")
	ncH.Flush()
	cfg := client.Rule{ID: "rule1", Parent: "par1", Conditions: []client.Condition{{ID: "c0", Parent: "rule1", ConditionType: data.PointValuePointValue,
		ValueType: data.PointValueText, Operator: "contains", ValueText: "alarm"}}}
	before := ns.NumSubscriptions()
	rc := client.NewRuleClient(ncRule, cfg)
	done := make(chan error, 1)
	go func() { done <- rc.Run() }()
	defer func() { rc.Stop(nil); <-done }()
	for i := 0; i < 5000 && ns.NumSubscriptions() <= before; i++ {
		time.Sleep(time.Millisecond)
	}
	b, _ := (&data.Points{{Type: "state", Text: "fire alarm", Time: time.Unix(1, 0)}}).ToPb()
	ncH.Publish("up.par1.s1", b)
	ncH.Flush()
	got := map[string]float64{}
	deadline := time.Now().Add(10 * time.Second)
	for len(got) < 2 && time.Now().Before(deadline) {
		m, err := sub.NextMsg(100 * time.Millisecond)
		if err != nil {
			continue
		}
		ps, _ := data.PbDecodePoints(m.Data)
		for _, p := range ps {
			if p.Type == data.PointTypeActive {
				got[m.Subject] = p.Value
			}
		}
	}
	if got["p.c0"] != 1 || got["p.rule1"] != 1 {
		t.Fatalf("text condition 'contains alarm' on text %q: writes %v, expected condition and rule active", "fire alarm", got)
	}
}
