package c13

import (
	"testing"

	"github.com/simpleiot/simpleiot/client"
	"github.com/simpleiot/simpleiot/data"
)

// text conditions compare the point text
func TestRegressTextOperators(t *testing.T) {
	mk := func(op, want string) *refCond {
		return &refCond{cfg: client.Condition{ID: "c", ConditionType: data.PointValuePointValue, ValueType: data.PointValueText, Operator: op, ValueText: want}}
	}
	for _, tc := range []struct {
		op, want, text string
		active         bool
	}{{"=", "on", "on", true}, {"=", "on", "ON", false}, {"!=", "on", "off", true}, {"!=", "on", "on", false}, {"contains", "alarm", "no alarm", true}, {"contains", "alarm", "ok", false}} {
		_, a := mk(tc.op, tc.want).eval("n", data.Point{Type: "value", Text: tc.text})
		if a != tc.active {
			t.Fatalf("reference: %q %s %q = %v", tc.text, tc.op, tc.want, a)
		}
	}
}
