// Package c13 decides property C13: a rule is active exactly when all of its
// conditions hold, and state changes run the action lists.
package c13

import (
	"fmt"
	"math"
	"sort"
	"strings"
	"testing"
	"time"

	natsserver "github.com/nats-io/nats-server/v2/server"
	"github.com/nats-io/nats.go"
	"github.com/simpleiot/simpleiot/client"
	"github.com/simpleiot/simpleiot/data"
	"pgregory.net/rapid"

	"verif/internal/fix"
	"verif/internal/schedref"
	"verif/internal/stats"
)

func TestMain(m *testing.M) {
	fix.Quiet()
	// Points arrive as Unix times and are rebuilt in the process's local zone.
	// A zone far from UTC makes the local date differ from the UTC date for
	// most of the day: only the instant's UTC reading may matter to a schedule.
	time.Local = time.FixedZone("verif+13", 13*3600)
	stats.Main(m)
}

// a fresh bare NATS server per case (no store: the harness is the only other
// party on the bus), so that the subscription count tells when the rule
// client is listening
func server(t fix.TB) *natsserver.Server {
	s, err := natsserver.NewServer(&natsserver.Options{DontListen: true, NoSigs: true, NoLog: true})
	if err != nil {
		t.Fatalf("nats server: %v", err)
	}
	go s.Start()
	if !s.ReadyForConnections(10 * time.Second) {
		t.Fatalf("nats server not ready")
	}
	return s
}

// write is one point written by the rule client.
type write struct {
	Node   string
	Type   string
	Value  float64
	Text   string
	Origin string
}

func (w write) String() string {
	return fmt.Sprintf("p.%s{%s v=%v text=%q origin=%q}", w.Node, w.Type, w.Value, w.Text, w.Origin)
}

// ---------------------------------------------------------------------------
// reference interpreter (from the property statement and docs/user/rules.md)

type refCond struct {
	cfg    client.Condition
	active bool
	sched  schedref.Sched
}

type refRule struct {
	id       string
	conds    []*refCond
	actions  []client.Action
	inactive []client.Action
	active   bool
	changes  int
}

func (c *refCond) eval(nodeID string, p data.Point) (matches bool, active bool) {
	switch c.cfg.ConditionType {
	case data.PointValuePointValue:
		if c.cfg.NodeID != "" && c.cfg.NodeID != nodeID {
			return false, false
		}
		if c.cfg.PointKey != "" && c.cfg.PointKey != p.Key {
			return false, false
		}
		if c.cfg.PointType != "" && c.cfg.PointType != p.Type {
			return false, false
		}
		switch c.cfg.ValueType {
		case data.PointValueNumber:
			switch c.cfg.Operator {
			case ">":
				return true, p.Value > c.cfg.Value
			case "<":
				return true, p.Value < c.cfg.Value
			case "=":
				return true, p.Value == c.cfg.Value
			case "!=":
				return true, p.Value != c.cfg.Value
			}
		case data.PointValueText:
			switch c.cfg.Operator {
			case "=":
				return true, p.Text == c.cfg.ValueText
			case "!=":
				return true, p.Text != c.cfg.ValueText
			case "contains":
				return true, strings.Contains(p.Text, c.cfg.ValueText)
			}
		case data.PointValueOnOff:
			return true, (c.cfg.Value != 0) == (p.Value != 0)
		}
	case data.PointValueSchedule:
		if p.Type != data.PointTypeTrigger {
			return false, false
		}
		return true, c.sched.Active(p.Time.Unix())
	}
	return false, false
}

func (r *refRule) batch(nodeID string, pts data.Points) []write {
	var out []write
	for _, p := range pts {
		for _, c := range r.conds {
			m, a := c.eval(nodeID, p)
			if !m {
				continue
			}
			if a != c.active {
				c.active = a
				out = append(out, write{Node: c.cfg.ID, Type: data.PointTypeActive, Value: data.BoolToFloat(a), Origin: r.id})
			}
		}
	}
	all := true
	for _, c := range r.conds {
		all = all && c.active
	}
	if all == r.active {
		return out
	}
	r.active = all
	r.changes++
	out = append(out, write{Node: r.id, Type: data.PointTypeActive, Value: data.BoolToFloat(all)})
	run, other := r.actions, r.inactive
	if !all {
		run, other = r.inactive, r.actions
	}
	for _, a := range run {
		// an action that names no target node or no point type cannot write (the
		// code reports an error point, which is not compared); it does not keep
		// the rest of the list from running
		if a.NodeID != "" && a.PointType != "" {
			out = append(out, write{Node: a.NodeID, Type: a.PointType, Value: a.Value, Text: a.ValueText, Origin: r.id})
		}
		out = append(out, write{Node: a.ID, Type: data.PointTypeActive, Value: 1, Origin: r.id})
	}
	for _, a := range other {
		out = append(out, write{Node: a.ID, Type: data.PointTypeActive, Value: 0, Origin: r.id})
	}
	return out
}

// ---------------------------------------------------------------------------
// generators

var (
	srcNodes   = []string{"s1", "s2", "s3"}
	pointTypes = []string{"value", "temp", "state"}
	pointKeys  = []string{"", "0", "1", "a"}
	texts      = []string{"", "on", "ON", "alarm", "no alarm", "x"}
	targets    = []string{"t1", "t2"}
)

const refDay = int64(19723) // 2024-01-01, Monday

func genCondition(t *rapid.T, i int) (client.Condition, schedref.Sched) {
	c := client.Condition{ID: fmt.Sprintf("c%d", i), Parent: "rule1", Active: rapid.Bool().Draw(t, "condActive")}
	var s schedref.Sched
	if rapid.IntRange(0, 3).Draw(t, "schedule") == 0 {
		c.ConditionType = data.PointValueSchedule
		s.Start = rapid.IntRange(0, 1439).Draw(t, "start")
		s.End = rapid.IntRange(0, 1439).Draw(t, "end")
		c.Start, c.End = schedref.HHMM(s.Start), schedref.HHMM(s.End)
		switch f := rapid.IntRange(0, 3).Draw(t, "filter"); f {
		case 1:
			c.Weekdays = make([]bool, 7)
			for d := 0; d < 7; d++ {
				c.Weekdays[d] = rapid.Bool().Draw(t, "weekday")
				s.Weekdays[d] = c.Weekdays[d]
			}
		case 2, 3:
			if f == 3 {
				// dates together with a weekday array in which no day is ticked (what
				// a day that was ticked and unticked again leaves behind): no weekday
				// filter, the dates still count
				c.Weekdays = make([]bool, 7)
			}
			for k := rapid.IntRange(1, 2).Draw(t, "ndates"); k > 0; k-- {
				d := schedref.DateString(refDay + int64(rapid.IntRange(-1, 2).Draw(t, "dateOff")))
				c.Dates = append(c.Dates, d)
				s.Dates = append(s.Dates, d)
			}
		}
		return c, s
	}
	c.ConditionType = data.PointValuePointValue
	if rapid.Bool().Draw(t, "filterNode") {
		c.NodeID = rapid.SampledFrom(srcNodes).Draw(t, "nodeID")
	}
	if rapid.Bool().Draw(t, "filterType") {
		c.PointType = rapid.SampledFrom(pointTypes).Draw(t, "pointType")
	}
	if rapid.IntRange(0, 2).Draw(t, "filterKey") == 0 {
		c.PointKey = rapid.SampledFrom(pointKeys[1:]).Draw(t, "pointKey")
	}
	switch rapid.IntRange(0, 2).Draw(t, "valueType") {
	case 0:
		c.ValueType = data.PointValueNumber
		c.Operator = rapid.SampledFrom([]string{">", "<", "=", "!="}).Draw(t, "op")
		c.Value = float64(rapid.IntRange(-2, 3).Draw(t, "threshold")) + rapid.SampledFrom([]float64{0, 0, 0, 0.5, 0.30000000000000004, 1e6}).Draw(t, "thresholdFrac")
	case 1:
		c.ValueType = data.PointValueOnOff
		c.Value = float64(rapid.IntRange(0, 1).Draw(t, "onOff"))
	default:
		c.ValueType = data.PointValueText
		c.Operator = rapid.SampledFrom([]string{"=", "!=", "contains"}).Draw(t, "textOp")
		c.ValueText = rapid.SampledFrom(texts).Draw(t, "valueText")
	}
	return c, s
}

func genAction(t *rapid.T, id string) client.Action {
	a := genCompleteAction(t, id)
	switch rapid.IntRange(0, 11).Draw(t, "incompleteAction") {
	case 0:
		a.NodeID = ""
	case 1:
		a.PointType = ""
	}
	return a
}

func genCompleteAction(t *rapid.T, id string) client.Action {
	return client.Action{
		ID: id, Parent: "rule1", Action: data.PointValueSetValue,
		Active:    rapid.Bool().Draw(t, "actionActive"),
		NodeID:    rapid.SampledFrom(targets).Draw(t, "target"),
		PointType: rapid.SampledFrom(pointTypes).Draw(t, "actionType"),
		ValueType: rapid.SampledFrom([]string{data.PointValueNumber, data.PointValueOnOff, data.PointValueText}).Draw(t, "actionVT"),
		Value:     float64(rapid.IntRange(-1, 5).Draw(t, "actionValue")),
		ValueText: rapid.SampledFrom(texts).Draw(t, "actionText"),
	}
}

// aimed draws a batch source node and a point that passes the filters of one
// of the point conditions (so that conditions, and with them the rule, flip
// often); ok=false if there is no point condition.
func aimed(t *rapid.T, conds []client.Condition) (string, data.Point, bool) {
	var pcs []client.Condition
	for _, c := range conds {
		if c.ConditionType == data.PointValuePointValue {
			pcs = append(pcs, c)
		}
	}
	if len(pcs) == 0 {
		return "", data.Point{}, false
	}
	c := pcs[rapid.IntRange(0, len(pcs)-1).Draw(t, "aimAt")]
	node := c.NodeID
	if node == "" {
		node = rapid.SampledFrom(srcNodes).Draw(t, "aimNode")
	}
	p := genPoint(t)
	if p.Type == data.PointTypeTrigger {
		return node, p, true
	}
	if c.PointType != "" {
		p.Type = c.PointType
	}
	if c.PointKey != "" {
		p.Key = c.PointKey
	}
	switch c.ValueType {
	case data.PointValueNumber:
		// on the threshold, one away from it, or a hair away from it
		p.Value = c.Value + rapid.SampledFrom([]float64{-1, 0, 1, -1, 0, 1, 1e-7, -1e-7, 5e-10, -5e-10}).Draw(t, "aimDelta")
		if rapid.IntRange(0, 7).Draw(t, "aimNext") == 0 {
			p.Value = math.Nextafter(c.Value, c.Value+float64(rapid.SampledFrom([]int{-1, 1}).Draw(t, "aimDir")))
		}
	case data.PointValueText:
		if rapid.Bool().Draw(t, "aimText") {
			p.Text = c.ValueText
		}
	}
	return node, p, true
}

func genPoint(t *rapid.T) data.Point {
	if rapid.IntRange(0, 4).Draw(t, "trigger") == 0 {
		// a trigger carrying a drawn time around the reference week
		sec := 86400*refDay + int64(rapid.IntRange(-86400, 3*86400).Draw(t, "trigSec"))
		return data.Point{Type: data.PointTypeTrigger, Time: time.Unix(sec, int64(rapid.IntRange(0, 999999999).Draw(t, "trigNs")))}
	}
	return data.Point{
		Type:  rapid.SampledFrom(pointTypes).Draw(t, "ptype"),
		Key:   rapid.SampledFrom(pointKeys).Draw(t, "pkey"),
		Value: float64(rapid.IntRange(-3, 4).Draw(t, "pvalue")) + rapid.SampledFrom([]float64{0, 0, 0, 0.5, 1e-7, -1e-7}).Draw(t, "pfrac"),
		Text:  rapid.SampledFrom(texts).Draw(t, "ptext"),
		Time:  time.Unix(1700000000, 0),
		// whoever wrote the point -- the rule itself included (its own set-value
		// action may write the very point a condition watches)
		Origin: rapid.SampledFrom([]string{"", "", "someone", "rule1"}).Draw(t, "porigin"),
	}
}

// ---------------------------------------------------------------------------

func TestPropRule(t *testing.T) {
	rapid.Check(t, func(t *rapid.T) {
		ns := server(t)
		defer func() { ns.Shutdown(); ns.WaitForShutdown() }()
		parent := "par1"
		cfg := client.Rule{ID: "rule1", Parent: parent, Description: "r", Active: rapid.Bool().Draw(t, "ruleActive")}
		ref := &refRule{id: cfg.ID, active: cfg.Active}
		nc := rapid.SampledFrom([]int{0, 1, 1, 2, 2, 2, 3, 4}).Draw(t, "nconds")
		kinds := map[string]bool{}
		for i := 0; i < nc; i++ {
			c, s := genCondition(t, i)
			cfg.Conditions = append(cfg.Conditions, c)
			ref.conds = append(ref.conds, &refCond{cfg: c, active: c.Active, sched: s})
			kinds[c.ConditionType+c.ValueType] = true
		}
		for i := rapid.IntRange(0, 3).Draw(t, "nactions"); i > 0; i-- {
			cfg.Actions = append(cfg.Actions, genAction(t, fmt.Sprintf("a%d", i)))
		}
		for i := rapid.IntRange(0, 3).Draw(t, "ninactive"); i > 0; i-- {
			cfg.ActionsInactive = append(cfg.ActionsInactive, genAction(t, fmt.Sprintf("ia%d", i)))
		}
		ref.actions = append([]client.Action{}, cfg.Actions...)
		ref.inactive = append([]client.Action{}, cfg.ActionsInactive...)

		ncRule, err := nats.Connect("", nats.InProcessServer(ns))
		if err != nil {
			t.Fatalf("connect: %v", err)
		}
		defer ncRule.Close()
		ncH, err := nats.Connect("", nats.InProcessServer(ns))
		if err != nil {
			t.Fatalf("connect: %v", err)
		}
		defer ncH.Close()
		// capture only this case's rule client: its writes come from ncRule;
		// cases are sequential, and earlier clients are stopped before we go on
		sub, err := ncH.SubscribeSync("p.*")
		if err != nil {
			t.Fatalf("subscribe: %v", err)
		}
		sub.SetPendingLimits(-1, -1)
		ncH.Flush()

		subsBefore := ns.NumSubscriptions()
		rc := client.NewRuleClient(ncRule, cfg)
		done := make(chan error, 1)
		go func() { done <- rc.Run() }()
		defer func() {
			rc.Stop(nil)
			select {
			case <-done:
			case <-time.After(10 * time.Second):
				t.Fatalf("rule client did not stop")
			}
		}()
		// wait for the rule's subscription to be registered at the server
		deadline := time.Now().Add(10 * time.Second)
		for ns.NumSubscriptions() <= subsBefore && time.Now().Before(deadline) {
			time.Sleep(200 * time.Microsecond)
		}
		if ns.NumSubscriptions() <= subsBefore {
			t.Fatalf("rule client did not subscribe")
		}

		nb := rapid.IntRange(3, 25).Draw(t, "nbatches")
		var predicted []write
		var hist []string
		for b := 0; b < nb; b++ {
			node := rapid.SampledFrom(srcNodes).Draw(t, "node")
			var pts data.Points
			if an, ap, ok := aimed(t, cfg.Conditions); ok && rapid.Bool().Draw(t, "aim") {
				node = an
				pts = append(pts, ap)
			}
			for k := rapid.IntRange(1, 3).Draw(t, "npts"); k > len(pts); k-- {
				pts = append(pts, genPoint(t))
			}
			predicted = append(predicted, ref.batch(node, pts)...)
			payload, _ := pts.ToPb()
			if err := ncH.Publish("up."+parent+"."+node, payload); err != nil {
				t.Fatalf("publish: %v", err)
			}
			hist = append(hist, fmt.Sprintf("%s:%s", node, descPts(pts)))
		}
		// batches to other parents / malformed subjects must be ignored
		other, _ := (&data.Points{{Type: "value", Value: 99, Time: time.Unix(1, 0)}}).ToPb()
		ncH.Publish("up.elsewhere.s1", other)
		ncH.Flush()

		// collect: wait for the predicted number of writes, then a settle time for surplus ones
		var got []write
		collect := func(d time.Duration) {
			for {
				m, err := sub.NextMsg(d)
				if err != nil {
					return
				}
				ps, err := data.PbDecodePoints(m.Data)
				if err != nil {
					t.Fatalf("rule wrote undecodable points on %s", m.Subject)
				}
				for _, p := range ps {
					if p.Type == data.PointTypeError {
						continue // error reports (incomplete actions) are not part of the statement
					}
					got = append(got, write{Node: strings.TrimPrefix(m.Subject, "p."), Type: p.Type, Value: p.Value, Text: p.Text, Origin: p.Origin})
				}
			}
		}
		// a write counts as missing once nothing at all has arrived for 5 s
		waitUntil := time.Now().Add(5 * time.Second)
		for len(got) < len(predicted) && time.Now().Before(waitUntil) {
			n := len(got)
			collect(20 * time.Millisecond)
			if len(got) > n {
				waitUntil = time.Now().Add(5 * time.Second)
			}
		}
		collect(60 * time.Millisecond)

		// compare: condition, rule and target writes in exact order; action marks as a multiset
		isMark := func(w write) bool {
			return w.Type == data.PointTypeActive && (strings.HasPrefix(w.Node, "a") || strings.HasPrefix(w.Node, "ia"))
		}
		split := func(ws []write) (core []write, marks map[string]int) {
			marks = map[string]int{}
			for _, w := range ws {
				if isMark(w) {
					marks[w.String()]++
				} else {
					core = append(core, w)
				}
			}
			return
		}
		gc, gm := split(got)
		pc, pm := split(predicted)
		fail := func(msg string) {
			t.Fatalf("%s\nrule: %s\nbatches: %v\npredicted: %v\nwritten:   %v", msg, descRule(cfg), hist, predicted, got)
		}
		// per written node the sequence of writes must be exactly the predicted one (the
		// last write wins there); the order between different nodes is not prescribed
		byNode := func(ws []write) map[string][]write {
			m := map[string][]write{}
			for _, w := range ws {
				m[w.Node] = append(m[w.Node], w)
			}
			return m
		}
		gn, pn := byNode(gc), byNode(pc)
		for node, pw := range pn {
			gw := gn[node]
			for i := 0; i < len(gw) || i < len(pw); i++ {
				if i >= len(gw) {
					fail(fmt.Sprintf("write %d to %s missing: expected %v", i, node, pw[i]))
				}
				if i >= len(pw) {
					fail(fmt.Sprintf("surplus write to %s: %v", node, gw[i]))
				}
				if gw[i] != pw[i] {
					fail(fmt.Sprintf("write %d to %s is %v, expected %v", i, node, gw[i], pw[i]))
				}
			}
		}
		for node, gw := range gn {
			if len(pn[node]) == 0 {
				fail(fmt.Sprintf("unexpected write %v", gw[0]))
			}
		}
		for k, n := range pm {
			if gm[k] != n {
				fail(fmt.Sprintf("action mark %s written %d times, expected %d", k, gm[k], n))
			}
		}
		for k, n := range gm {
			if pm[k] != n {
				fail(fmt.Sprintf("action mark %s written %d times, expected %d", k, n, pm[k]))
			}
		}
		nt := len(kinds) >= 2 && ref.changes >= 2
		var cl []string
		for k := range kinds {
			cl = append(cl, "cond:"+k)
		}
		sort.Strings(cl)
		if ref.changes >= 2 {
			cl = append(cl, "ruleChanged>=2")
		}
		for _, a := range append(append([]client.Action{}, cfg.Actions...), cfg.ActionsInactive...) {
			if (a.NodeID == "" || a.PointType == "") && ref.changes >= 1 {
				cl = append(cl, "incompleteActionInRunList")
				break
			}
		}
		stats.Case(nt, stats.Digest(descRule(cfg), fmt.Sprint(hist)), cl...)
		if nt && stats.WantSample() {
			h := hist
			if len(h) > 6 {
				h = append(append([]string{}, h[:6]...), "...")
			}
			stats.Sample(map[string]any{"rule": descRule(cfg), "batches": h, "rule_state_changes": ref.changes, "writes": len(predicted)})
		}
	})
}

func descPts(ps data.Points) string {
	var s []string
	for _, p := range ps {
		if p.Type == data.PointTypeTrigger {
			s = append(s, "trigger@"+p.Time.UTC().Format("Mon 15:04:05"))
		} else {
			s = append(s, fmt.Sprintf("%s/%s=%v %q", p.Type, p.Key, p.Value, p.Text))
		}
	}
	return strings.Join(s, ",")
}

func descRule(r client.Rule) string {
	s := fmt.Sprintf("active=%v", r.Active)
	for _, c := range r.Conditions {
		if c.ConditionType == data.PointValueSchedule {
			s += fmt.Sprintf(" [%s sched %s-%s wd=%v dates=%v active=%v]", c.ID, c.Start, c.End, c.Weekdays, c.Dates, c.Active)
		} else {
			s += fmt.Sprintf(" [%s node=%q type=%q key=%q %s %s %v %q active=%v]", c.ID, c.NodeID, c.PointType, c.PointKey, c.ValueType, c.Operator, c.Value, c.ValueText, c.Active)
		}
	}
	for _, a := range r.Actions {
		s += fmt.Sprintf(" {%s -> %s %s=%v %q}", a.ID, a.NodeID, a.PointType, a.Value, a.ValueText)
	}
	for _, a := range r.ActionsInactive {
		s += fmt.Sprintf(" {%s -> %s %s=%v %q}", a.ID, a.NodeID, a.PointType, a.Value, a.ValueText)
	}
	return s
}
