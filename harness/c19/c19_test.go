// Package c19 decides property C19: Modbus client, server and the RTU/TCP
// framings agree end to end; damaged frames are rejected; register
// conversions are exact inverses.
package c19

import (
	"errors"
	"fmt"
	"math"
	"net"
	"os"
	"sync"
	"testing"
	"time"

	"github.com/simpleiot/simpleiot/modbus"
	"pgregory.net/rapid"

	"verif/internal/fix"
	"verif/internal/stats"
)

func TestMain(m *testing.M) { fix.Quiet(); stats.Main(m) }

// ---------------------------------------------------------------------------
// in-memory duplex transport: every Write is one packet; a Read returns one
// packet (what does not fit the caller's buffer stays for the next Read, as
// on a byte stream). It implements net.Conn so that it serves both framings.

type end struct {
	in      chan []byte
	out     chan []byte
	rest    []byte
	mangle  func([]byte) []byte // applied to packets this end receives
	closed  chan struct{}
	once    sync.Once
	mu      sync.Mutex
	timeout time.Duration
}

type addr struct{}

func (addr) Network() string { return "mem" }
func (addr) String() string  { return "mem" }

func newPair(timeout time.Duration) (*end, *end) {
	a2b, b2a := make(chan []byte, 16), make(chan []byte, 16)
	a := &end{in: b2a, out: a2b, closed: make(chan struct{}), timeout: timeout}
	b := &end{in: a2b, out: b2a, closed: make(chan struct{}), timeout: timeout}
	return a, b
}

func (e *end) Read(p []byte) (int, error) {
	if len(e.rest) == 0 {
		select {
		case pkt := <-e.in:
			e.mu.Lock()
			m := e.mangle
			e.mu.Unlock()
			if m != nil {
				pkt = m(pkt)
			}
			e.rest = pkt
		case <-e.closed:
			return 0, errors.New("closed")
		case <-time.After(e.timeout):
			return 0, os.ErrDeadlineExceeded
		}
	}
	n := copy(p, e.rest)
	e.rest = e.rest[n:]
	return n, nil
}

func (e *end) Write(p []byte) (int, error) {
	select {
	case e.out <- append([]byte{}, p...):
		return len(p), nil
	case <-e.closed:
		return 0, errors.New("closed")
	}
}
func (e *end) Close() error                     { e.once.Do(func() { close(e.closed) }); return nil }
func (e *end) LocalAddr() net.Addr              { return addr{} }
func (e *end) RemoteAddr() net.Addr             { return addr{} }
func (e *end) SetDeadline(time.Time) error      { return nil }
func (e *end) SetReadDeadline(time.Time) error  { return nil }
func (e *end) SetWriteDeadline(time.Time) error { return nil }
func (e *end) setMangle(f func([]byte) []byte) {
	e.mu.Lock()
	e.mangle = f
	e.mu.Unlock()
}
func (e *end) drain() {
	e.rest = nil
	for {
		select {
		case <-e.in:
		default:
			return
		}
	}
}

// ---------------------------------------------------------------------------

type link struct {
	kind   string
	id     byte
	regs   *modbus.Regs
	client *modbus.Client
	cEnd   *end
	sEnd   *end
	txs    int
	errs   []string
	mu     sync.Mutex
}

const nRegs = 260 // registers 0..259 (coils 0..4159) and the top 140 registers

func newLink(kind string, id byte) *link {
	l := &link{kind: kind, id: id, regs: &modbus.Regs{}}
	l.regs.AddReg(0, nRegs)
	l.regs.AddReg(0x10000-140, 140)
	// every request of this harness is answered (possibly with a damaged or
	// empty packet), so the client's wait is only a guard against a server that
	// stopped answering: 20 s, far beyond any scheduling delay under load
	l.cEnd, l.sEnd = newPair(20 * time.Second)
	l.sEnd.timeout = time.Hour
	var ct, st modbus.Transport
	if kind == "rtu" {
		ct, st = modbus.NewRTU(l.cEnd), modbus.NewRTU(l.sEnd)
	} else {
		ct = modbus.NewTCP(l.cEnd, time.Second, modbus.TransportClient)
		st = modbus.NewTCP(l.sEnd, time.Second, modbus.TransportServer)
	}
	srv := modbus.NewServer(id, st, l.regs, 0)
	go srv.Listen(func(err error) {
		l.mu.Lock()
		l.errs = append(l.errs, err.Error())
		l.mu.Unlock()
	}, func() {}, func() {})
	l.client = modbus.NewClient(ct, 0)
	return l
}

var (
	links = map[string]*link{}
	dirty = map[string]bool{}
)

// getLink returns the (per process) link for a framing and unit id; a link
// that saw a failure is replaced so that cases stay independent.
func getLink(kind string, id byte) *link {
	k := fmt.Sprintf("%s/%d", kind, id)
	if l, ok := links[k]; ok && !dirty[k] {
		l.cEnd.drain()
		l.cEnd.setMangle(nil)
		return l
	}
	l := newLink(kind, id)
	links[k] = l
	dirty[k] = false
	return l
}

func markDirty(l *link) { dirty[fmt.Sprintf("%s/%d", l.kind, l.id)] = true }

// model of the register file
type model map[uint16]uint16

func (m model) coil(n int) bool { return m[uint16(n/16)]&(1<<(n%16)) != 0 }

func setContents(t *rapid.T, l *link) model {
	m := model{}
	salt := rapid.Uint16().Draw(t, "salt")
	kind := rapid.IntRange(0, 2).Draw(t, "contents")
	set := func(a int) {
		var v uint16
		switch kind {
		case 0:
			v = uint16(a)*40503 ^ salt
		case 1:
			v = 0xffff
		default:
			v = salt
		}
		m[uint16(a)] = v
		if err := l.regs.WriteReg(a, v); err != nil {
			panic(err)
		}
	}
	for a := 0; a < nRegs; a++ {
		set(a)
	}
	for a := 0x10000 - 140; a < 0x10000; a++ {
		set(a)
	}
	return m
}

var unitIDs = []byte{0, 1, 2, 17, 127, 128, 247, 255}

func TestPropEndToEnd(t *testing.T) {
	rapid.Check(t, func(t *rapid.T) {
		kind := rapid.SampledFrom([]string{"rtu", "tcp"}).Draw(t, "framing")
		id := rapid.SampledFrom(unitIDs).Draw(t, "unitID")
		l := getLink(kind, id)
		ok := false
		defer func() {
			if !ok {
				markDirty(l)
			}
		}()
		m := setContents(t, l)
		n := rapid.IntRange(1, 8).Draw(t, "ntx")
		nt := false
		cls := map[string]bool{kind: true}
		for i := 0; i < n; i++ {
			op := rapid.SampledFrom([]string{"readCoils", "readDiscrete", "readHolding", "readInput", "writeCoil", "writeReg"}).Draw(t, "op")
			top := rapid.IntRange(0, 5).Draw(t, "top") == 0
			l.txs++
			before := l.txs
			_ = before
			switch op {
			case "readCoils", "readDiscrete":
				count := rapid.OneOf(rapid.SampledFrom([]int{1, 7, 8, 9, 12, 15, 16, 17, 100, 1592, 1593, 1999, 2000}), rapid.IntRange(1, 2000)).Draw(t, "count")
				a := rapid.IntRange(0, nRegs*16-count).Draw(t, "addr")
				var got []bool
				var err error
				if op == "readCoils" {
					got, err = l.client.ReadCoils(id, uint16(a), uint16(count))
				} else {
					got, err = l.client.ReadDiscreteInputs(id, uint16(a), uint16(count))
				}
				if err != nil {
					t.Fatalf("%s/%d %s(%d,%d): %v (server errors %v)", kind, id, op, a, count, err, l.errs)
				}
				if len(got) != count {
					t.Fatalf("%s/%d %s(%d,%d) returned %d values", kind, id, op, a, count, len(got))
				}
				for j, v := range got {
					if v != m.coil(a+j) {
						t.Fatalf("%s/%d %s(%d,%d): value %d is %v, server holds %v", kind, id, op, a, count, j, v, m.coil(a+j))
					}
				}
				if count%8 != 0 && count > 8 {
					nt = true
					cls["bitsUnaligned>8"] = true
				}
				if count > 1592 {
					cls["bits>1592(reply>200B)"] = true
				}
			case "readHolding", "readInput":
				count := rapid.OneOf(rapid.SampledFrom([]int{1, 2, 96, 97, 98, 99, 124, 125}), rapid.IntRange(1, 125)).Draw(t, "count")
				a := rapid.IntRange(0, nRegs-count).Draw(t, "addr")
				if top {
					a = rapid.IntRange(0x10000-140, 0x10000-count).Draw(t, "topAddr")
				}
				var got []uint16
				var err error
				if op == "readHolding" {
					got, err = l.client.ReadHoldingRegs(id, uint16(a), uint16(count))
				} else {
					got, err = l.client.ReadInputRegs(id, uint16(a), uint16(count))
				}
				if err != nil {
					t.Fatalf("%s/%d %s(%d,%d): %v (server errors %v)", kind, id, op, a, count, err, l.errs)
				}
				if len(got) != count {
					t.Fatalf("%s/%d %s(%d,%d) returned %d values", kind, id, op, a, count, len(got))
				}
				for j, v := range got {
					if v != m[uint16(a+j)] {
						t.Fatalf("%s/%d %s(%d,%d): value %d is %#x, server holds %#x", kind, id, op, a, count, j, v, m[uint16(a+j)])
					}
				}
				if count > 97 {
					nt = true
					cls["regs>97(reply>200B)"] = true
				}
			case "writeCoil":
				a := rapid.IntRange(0, nRegs*16-1).Draw(t, "addr")
				v := rapid.Bool().Draw(t, "v")
				if err := l.client.WriteSingleCoil(id, uint16(a), v); err != nil {
					t.Fatalf("%s/%d WriteSingleCoil(%d,%v): %v", kind, id, a, v, err)
				}
				if v {
					m[uint16(a/16)] |= 1 << (a % 16)
				} else {
					m[uint16(a/16)] &^= 1 << (a % 16)
				}
				got, err := l.regs.ReadReg(a / 16)
				if err != nil || got != m[uint16(a/16)] {
					t.Fatalf("%s/%d after WriteSingleCoil(%d,%v) register %d holds %#x, expected %#x (%v)", kind, id, a, v, a/16, got, m[uint16(a/16)], err)
				}
				rb, err := l.client.ReadCoils(id, uint16(a), 1)
				if err != nil || len(rb) != 1 || rb[0] != v {
					t.Fatalf("%s/%d read back of coil %d after writing %v: %v %v", kind, id, a, v, rb, err)
				}
			case "writeReg":
				a := rapid.IntRange(0, nRegs-1).Draw(t, "addr")
				if top {
					a = rapid.IntRange(0x10000-140, 0xffff).Draw(t, "topAddr")
				}
				v := rapid.Uint16().Draw(t, "v")
				if err := l.client.WriteSingleReg(id, uint16(a), v); err != nil {
					t.Fatalf("%s/%d WriteSingleReg(%d,%#x): %v", kind, id, a, v, err)
				}
				m[uint16(a)] = v
				got, err := l.regs.ReadReg(a)
				if err != nil || got != v {
					t.Fatalf("%s/%d after WriteSingleReg(%d,%#x) the server holds %#x (%v)", kind, id, a, v, got, err)
				}
				rb, err := l.client.ReadHoldingRegs(id, uint16(a), 1)
				if err != nil || len(rb) != 1 || rb[0] != v {
					t.Fatalf("%s/%d read back of register %d after writing %#x: %v %v", kind, id, a, v, rb, err)
				}
			}
		}
		if kind == "tcp" && l.txs > 65536 {
			cls["tcpTransactionIDWrapped"] = true
		}
		// the whole register file still equals the model
		for a, v := range m {
			got, err := l.regs.ReadReg(int(a))
			if err != nil || got != v {
				t.Fatalf("%s/%d register %d holds %#x, model %#x (%v)", kind, id, a, got, v, err)
			}
		}
		ok = true
		var cl []string
		for c := range cls {
			cl = append(cl, c)
		}
		stats.Case(nt, stats.Digest(kind, id, l.txs, n), cl...)
		if nt && stats.WantSample() {
			stats.Sample(map[string]any{"framing": kind, "unit_id": id, "transactions": n, "classes": cl})
		}
	})
}

// TestPropDamagedFrames: one reply is damaged; the client must report an
// error, never values; the next undamaged transaction works again.
func TestPropDamagedFrames(t *testing.T) {
	rapid.Check(t, func(t *rapid.T) {
		kind := rapid.SampledFrom([]string{"rtu", "tcp"}).Draw(t, "framing")
		id := rapid.SampledFrom(unitIDs).Draw(t, "unitID")
		l := getLink(kind, id)
		ok := false
		defer func() {
			l.cEnd.setMangle(nil)
			if !ok {
				markDirty(l)
			}
		}()
		m := setContents(t, l)
		var damages []string
		if kind == "rtu" {
			damages = []string{"flipBit", "truncate", "dropCRCByte", "wrongUnit"}
		} else {
			damages = []string{"wrongTxID", "truncateBelowHeader", "truncatePayload"}
		}
		dmg := rapid.SampledFrom(damages).Draw(t, "damage")
		pos := rapid.IntRange(0, 1<<20).Draw(t, "pos")
		bit := rapid.IntRange(0, 7).Draw(t, "bit")
		l.cEnd.setMangle(func(p []byte) []byte {
			q := append([]byte{}, p...)
			switch dmg {
			case "flipBit":
				q[pos%len(q)] ^= 1 << bit
			case "truncate":
				q = q[:pos%len(q)]
			case "dropCRCByte":
				q = q[:len(q)-1]
			case "wrongUnit":
				// a reply from another unit still has a valid CRC; it is not ours,
				// but the statement only names checksum, length and transaction id,
				// so this class is observed, not judged
				return q
			case "wrongTxID":
				q[pos%2] ^= 1 << bit
			case "truncateBelowHeader":
				q = q[:pos%9]
			case "truncatePayload":
				// keep the header, function code and at least the byte count, drop 1..n payload bytes
				q = q[:9+pos%(len(q)-9)]
			}
			return q
		})
		count := rapid.IntRange(2, 120).Draw(t, "count")
		a := rapid.IntRange(0, nRegs-count).Draw(t, "addr")
		bits := rapid.Bool().Draw(t, "bits")
		var err error
		var nvals int
		if bits {
			var got []bool
			got, err = l.client.ReadCoils(id, uint16(a), uint16(count))
			nvals = len(got)
		} else {
			var got []uint16
			got, err = l.client.ReadHoldingRegs(id, uint16(a), uint16(count))
			nvals = len(got)
		}
		if dmg != "wrongUnit" && (err == nil || nvals != 0) {
			t.Fatalf("%s: reply damaged by %s (pos %d bit %d) was accepted: %d values, err %v", kind, dmg, pos, bit, nvals, err)
		}
		// recovery: an undamaged transaction works again
		l.cEnd.setMangle(nil)
		l.cEnd.drain()
		got, err := l.client.ReadHoldingRegs(id, uint16(a), 1)
		if err != nil || len(got) != 1 || got[0] != m[uint16(a)] {
			t.Fatalf("%s: transaction after a damaged reply (%s): %v %v, server holds %#x", kind, dmg, got, err, m[uint16(a)])
		}
		ok = true
		stats.Case(dmg != "wrongUnit", stats.Digest(kind, id, dmg, pos, bit, count, a, bits), kind+":"+dmg)
		if stats.WantSample() {
			stats.Sample(map[string]any{"framing": kind, "damage": dmg, "pos": pos, "bit": bit, "request": fmt.Sprintf("%d values at %d", count, a)})
		}
	})
}

// TestPropConversions: register <-> 16/32-bit integer and float conversions
// are exact inverses in either word order.
func TestPropConversions(t *testing.T) {
	rapid.Check(t, func(t *rapid.T) {
		n := rapid.IntRange(0, 6).Draw(t, "n")
		var u []uint32
		for i := 0; i < n; i++ {
			u = append(u, rapid.OneOf(rapid.SampledFrom([]uint32{0, 1, 0xffff, 0x10000, 0x7fffffff, 0x80000000, 0xffffffff, 0x7fc00000, 0x7f800001, 0xffc00001, 0x00010002}), rapid.Uint32()).Draw(t, "u32"))
		}
		swap := func(r []uint16) []uint16 {
			o := make([]uint16, len(r))
			for i := 0; i+1 < len(r); i += 2 {
				o[i], o[i+1] = r[i+1], r[i]
			}
			return o
		}
		eqU16 := func(a, b []uint16) bool {
			if len(a) != len(b) {
				return false
			}
			for i := range a {
				if a[i] != b[i] {
					return false
				}
			}
			return true
		}
		// uint32
		r := modbus.Uint32ToRegs(u)
		rs := modbus.Uint32ToRegsSwapRegs(u)
		if len(r) != 2*n || !eqU16(rs, swap(r)) {
			t.Fatalf("Uint32ToRegsSwapRegs != swap(Uint32ToRegs): %v %v", r, rs)
		}
		for i, v := range u {
			if r[2*i] != uint16(v>>16) || r[2*i+1] != uint16(v) {
				t.Fatalf("Uint32ToRegs(%#x) = %#x %#x (high word first expected)", v, r[2*i], r[2*i+1])
			}
		}
		// a conversion is a function of its argument: the caller's slices are
		// the same afterwards (the client hands the same registers to several
		// conversions, and a caller compares them with what it wrote)
		u0, r0, rs0 := append([]uint32{}, u...), append([]uint16{}, r...), append([]uint16{}, rs...)
		unchanged := func(after string) {
			if !eqU16(r, r0) || !eqU16(rs, rs0) {
				t.Fatalf("%s changed its argument: registers %#x (were %#x), swapped %#x (were %#x)", after, r, r0, rs, rs0)
			}
			for i := range u {
				if u[i] != u0[i] {
					t.Fatalf("%s changed its argument: values %#x (were %#x)", after, u, u0)
				}
			}
		}
		back, backS := modbus.RegsToUint32(r), modbus.RegsToUint32SwapWords(rs)
		unchanged("RegsToUint32/RegsToUint32SwapWords")
		for i, v := range u {
			if back[i] != v || backS[i] != v {
				t.Fatalf("uint32 %#x round trip: %#x / swapped %#x", v, back[i], backS[i])
			}
		}
		// int32
		var s []int32
		var f []float32
		for _, v := range u {
			s = append(s, int32(v))
			f = append(f, math.Float32frombits(v))
		}
		ri, ris := modbus.Int32ToRegs(s), modbus.Int32ToRegsSwapWords(s)
		if !eqU16(ri, r) || !eqU16(ris, swap(ri)) {
			t.Fatalf("Int32ToRegs: %v vs %v / swapped %v", ri, r, ris)
		}
		bi, bis := modbus.RegsToInt32(ri), modbus.RegsToInt32SwapWords(ris)
		if !eqU16(ri, r0) || !eqU16(ris, rs0) {
			t.Fatalf("RegsToInt32/RegsToInt32SwapWords changed its argument: %#x (were %#x), swapped %#x (were %#x)", ri, r0, ris, rs0)
		}
		for i, v := range s {
			if bi[i] != v || bis[i] != v {
				t.Fatalf("int32 %d round trip: %d / swapped %d", v, bi[i], bis[i])
			}
		}
		// float32, bit for bit (NaN payloads included)
		rf, rfs := modbus.Float32ToRegs(f), modbus.Float32ToRegsSwapWords(f)
		if !eqU16(rf, r) || !eqU16(rfs, swap(rf)) {
			t.Fatalf("Float32ToRegs: %v vs %v / swapped %v", rf, r, rfs)
		}
		bf, bfs := modbus.RegsToFloat32(rf), modbus.RegsToFloat32SwapWords(rfs)
		if !eqU16(rf, r0) || !eqU16(rfs, rs0) {
			t.Fatalf("RegsToFloat32/RegsToFloat32SwapWords changed its argument: %#x (were %#x), swapped %#x (were %#x)", rf, r0, rfs, rs0)
		}
		for i, v := range f {
			if math.Float32bits(bf[i]) != math.Float32bits(v) || math.Float32bits(bfs[i]) != math.Float32bits(v) {
				t.Fatalf("float32 %#x round trip: %#x / swapped %#x", math.Float32bits(v), math.Float32bits(bf[i]), math.Float32bits(bfs[i]))
			}
		}
		// 16-bit
		i16 := modbus.RegsToInt16(r)
		for i := range r {
			if uint16(i16[i]) != r[i] {
				t.Fatalf("RegsToInt16(%#x) = %d", r[i], i16[i])
			}
		}
		arr := modbus.Uint16Array(modbus.PutUint16Array(r...))
		if !eqU16(arr, r) {
			t.Fatalf("Uint16Array(PutUint16Array(%v)) = %v", r, arr)
		}
		_ = modbus.RegsToInt16(r)
		_ = modbus.PutUint16Array(r...)
		unchanged("a register to value conversion")
		for i := range s {
			if s[i] != int32(u0[i]) || math.Float32bits(f[i]) != u0[i] {
				t.Fatalf("a value to register conversion changed its argument: %v %v (from %#x)", s, f, u0)
			}
		}
		// odd register counts: the unpaired register is ignored, no panic
		if n > 0 {
			_ = modbus.RegsToUint32(r[:len(r)-1])
			_ = modbus.RegsToFloat32SwapWords(r[:len(r)-1])
		}
		stats.Case(n >= 2, stats.Digest(fmt.Sprint(u)), "conversions")
		if n >= 2 && stats.WantSample() {
			stats.Sample(map[string]any{"uint32": fmt.Sprintf("%#x", u)})
		}
	})
}
