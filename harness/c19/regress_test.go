package c19

import (
	"testing"

	"verif/internal/stats"
)

func fill(l *link) model {
	m := model{}
	for a := 0; a < nRegs; a++ {
		v := uint16(a)*40503 ^ 0x5a5a
		m[uint16(a)] = v
		_ = l.regs.WriteReg(a, v)
	}
	return m
}

// reading n coils returns n values, aligned or not
func TestRegressCoilCount(t *testing.T) {
	for _, kind := range []string{"rtu", "tcp"} {
		l := newLink(kind, 1)
		m := fill(l)
		for _, n := range []int{1, 3, 8, 9, 12, 16, 17, 100} {
			got, err := l.client.ReadCoils(1, 5, uint16(n))
			if err != nil || len(got) != n {
				t.Fatalf("%s ReadCoils(5,%d): %d values, %v", kind, n, len(got), err)
			}
			for j, v := range got {
				if v != m.coil(5+j) {
					t.Fatalf("%s coil %d", kind, 5+j)
				}
			}
			gd, err := l.client.ReadDiscreteInputs(1, 5, uint16(n))
			if err != nil || len(gd) != n {
				t.Fatalf("%s ReadDiscreteInputs(5,%d): %d values, %v", kind, n, len(gd), err)
			}
		}
	}
}

// replies longer than 200 bytes
func TestRegressLargeReplies(t *testing.T) {
	for _, kind := range []string{"rtu", "tcp"} {
		l := newLink(kind, 1)
		m := fill(l)
		got, err := l.client.ReadHoldingRegs(1, 3, 125)
		if err != nil || len(got) != 125 {
			t.Fatalf("%s ReadHoldingRegs(3,125): %d values, %v", kind, len(got), err)
		}
		for j, v := range got {
			if v != m[uint16(3+j)] {
				t.Fatalf("%s register %d", kind, 3+j)
			}
		}
		bits, err := l.client.ReadCoils(1, 0, 2000)
		if err != nil || len(bits) != 2000 {
			t.Fatalf("%s ReadCoils(0,2000): %d values, %v", kind, len(bits), err)
		}
	}
}

// TestEnumTCPTransactionIDs runs more than 65536 consecutive transactions on
// one TCP link so that the transaction id wraps.
func TestEnumTCPTransactionIDs(t *testing.T) {
	l := newLink("tcp", 9)
	m := fill(l)
	n := 70000
	for i := 0; i < n; i++ {
		a := i % nRegs
		got, err := l.client.ReadHoldingRegs(9, uint16(a), 1)
		if err != nil || len(got) != 1 || got[0] != m[uint16(a)] {
			t.Fatalf("transaction %d: %v %v", i, got, err)
		}
	}
	stats.Enumerated(int64(n), 1, "tcpTransactionIDWrapped")
	stats.Sample(map[string]any{"enumeration": "70000 consecutive TCP transactions on one connection (transaction id wraps at 65536)"})
}
