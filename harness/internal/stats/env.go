package stats

import (
	"os"
	"strconv"
	"testing"
)

func envInt(name string, def int64) int64 {
	v, err := strconv.ParseInt(os.Getenv(name), 10, 64)
	if err != nil {
		return def
	}
	return v
}

// Tier is "quick" or "thorough".
func Tier() string {
	if os.Getenv("VERIF_TIER") == "thorough" {
		return "thorough"
	}
	return "quick"
}

// Seed is VERIF_SEED (default 1).
func Seed() int64 { return envInt("VERIF_SEED", 1) }

// Shard and NShards tell an enumeration which slice of its space is its own.
func Shard() int   { return int(envInt("VERIF_SHARD", 0)) }
func NShards() int { return int(envInt("VERIF_NSHARDS", 1)) }

// Main runs the tests and flushes the counters.
func Main(m *testing.M) {
	rc := m.Run()
	Flush()
	os.Exit(rc)
}
