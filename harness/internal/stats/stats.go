// Package stats collects, inside a test process, what the generated checks
// actually explored, and writes it to $VERIF_STATS/<pid>.json so that the
// driver can merge shards into /verif/evidence/<id>.json.
package stats

import (
	"encoding/json"
	"fmt"
	"hash/fnv"
	"os"
	"path/filepath"
	"sort"
	"sync"
	"time"
)

const (
	maxDigests = 200000
	maxSamples = 6
)

type file struct {
	Evaluations int64 `json:"evaluations"`
	Nontrivial  int64 `json:"nontrivial"`
	// EnumNontrivial counts non-trivial cases that are distinct by
	// construction (enumerations), reported without digests.
	EnumNontrivial int64            `json:"enum_nontrivial"`
	Digests        []string         `json:"digests"`
	DigestsCapped  bool             `json:"digests_capped"`
	Classes        map[string]int64 `json:"classes"`
	Excluded       map[string]int64 `json:"excluded"`
	Inconclusive   map[string]int64 `json:"inconclusive"`
	Samples        []any            `json:"samples"`
	Exhaustive     []string         `json:"exhaustive"`
}

var (
	mu        sync.Mutex
	cur       = file{Classes: map[string]int64{}, Excluded: map[string]int64{}, Inconclusive: map[string]int64{}}
	digests   = map[uint64]struct{}{}
	lastFlush time.Time
)

// Digest returns the FNV-64a digest of the canonical text of a case.
func Digest(parts ...any) uint64 {
	h := fnv.New64a()
	for _, p := range parts {
		fmt.Fprintf(h, "%v\x1f", p)
	}
	return h.Sum64()
}

// Case records one execution of a property body that reached its oracle.
// nontrivial is the property's stated rule; digest identifies the case.
func Case(nontrivial bool, digest uint64, classes ...string) {
	mu.Lock()
	defer mu.Unlock()
	cur.Evaluations++
	if nontrivial {
		cur.Nontrivial++
		if _, ok := digests[digest]; !ok {
			if len(digests) < maxDigests {
				digests[digest] = struct{}{}
			} else {
				cur.DigestsCapped = true
			}
		}
	}
	for _, c := range classes {
		cur.Classes[c]++
	}
	maybeFlushLocked()
}

// Class adds to class counters without counting an evaluation.
func Class(c string, n int64) {
	mu.Lock()
	cur.Classes[c] += n
	mu.Unlock()
}

// Enumerated records n evaluations of an enumeration of which nt are
// non-trivial; the enumeration visits each case once so they are distinct by
// construction.
func Enumerated(n, nt int64, classes ...string) {
	mu.Lock()
	defer mu.Unlock()
	cur.Evaluations += n
	cur.EnumNontrivial += nt
	for _, c := range classes {
		cur.Classes[c] += n
	}
	maybeFlushLocked()
}

// Exhaustive notes that a finite sub-space was enumerated completely.
func Exhaustive(what string) {
	mu.Lock()
	cur.Exhaustive = append(cur.Exhaustive, what)
	mu.Unlock()
}

// Excluded counts a draw the generator redirected away from a known finding.
func Excluded(what string) {
	mu.Lock()
	cur.Excluded[what]++
	mu.Unlock()
}

// Inconclusive counts a case dropped for an environmental reason (timeouts of
// helpers with hard-coded deadlines); never a violation.
func Inconclusive(what string) {
	mu.Lock()
	cur.Inconclusive[what]++
	mu.Unlock()
}

// Sample keeps a few written-out cases for the evidence file.
func Sample(v any) {
	mu.Lock()
	defer mu.Unlock()
	if len(cur.Samples) < maxSamples {
		cur.Samples = append(cur.Samples, v)
		return
	}
	// keep the first half fixed, rotate the rest so late cases show too
	n := cur.Evaluations
	if n%97 == 0 {
		cur.Samples[maxSamples/2+int(n/97)%(maxSamples-maxSamples/2)] = v
	}
}

// WantSample tells whether Sample would keep the value (lets callers avoid
// building an expensive description).
func WantSample() bool {
	mu.Lock()
	defer mu.Unlock()
	return len(cur.Samples) < maxSamples || cur.Evaluations%97 == 0
}

func maybeFlushLocked() {
	if time.Since(lastFlush) > 2*time.Second {
		flushLocked()
	}
}

// Flush writes the counters; call from TestMain after m.Run().
func Flush() {
	mu.Lock()
	defer mu.Unlock()
	flushLocked()
}

func flushLocked() {
	lastFlush = time.Now()
	dir := os.Getenv("VERIF_STATS")
	if dir == "" {
		return
	}
	out := cur
	out.Digests = make([]string, 0, len(digests))
	for d := range digests {
		out.Digests = append(out.Digests, fmt.Sprintf("%016x", d))
	}
	sort.Strings(out.Digests)
	b, err := json.Marshal(out)
	if err != nil {
		// a sample that cannot be marshalled must not lose the counters
		out.Samples = []any{fmt.Sprintf("%v", out.Samples)}
		b, _ = json.Marshal(out)
	}
	name := filepath.Join(dir, fmt.Sprintf("%d.json", os.Getpid()))
	tmp := name + ".tmp"
	if os.WriteFile(tmp, b, 0o644) == nil {
		os.Rename(tmp, name)
	}
}
