// Package schedref is the reference model of schedule windows (property C14)
// in integer Unix seconds, shared with the rule reference interpreter (C13).
package schedref

import "fmt"

func floorDiv(a, b int64) int64 {
	q := a / b
	if (a%b != 0) && ((a < 0) != (b < 0)) {
		q--
	}
	return q
}

func civil(z int64) (int64, int64, int64) {
	z += 719468
	era := floorDiv(z, 146097)
	doe := z - era*146097
	yoe := (doe - doe/1460 + doe/36524 - doe/146096) / 365
	y := yoe + era*400
	doy := doe - (365*yoe + yoe/4 - yoe/100)
	mp := (5*doy + 2) / 153
	d := doy - (153*mp+2)/5 + 1
	m := mp + 3
	if m > 12 {
		m -= 12
	}
	if m <= 2 {
		y++
	}
	return y, m, d
}

// DateString renders day number (days since 1970-01-01) as YYYY-MM-DD.
func DateString(day int64) string {
	y, m, d := civil(day)
	return fmt.Sprintf("%04d-%02d-%02d", y, m, d)
}

// Sched is a schedule: start/end in minutes of the day, weekday filter
// (Sunday = 0; no true entry = all days), date filter (empty = all).
type Sched struct {
	Start, End int
	Weekdays   [7]bool
	Dates      []string
}

func (s Sched) allowed(day int64) bool {
	any := false
	for _, w := range s.Weekdays {
		any = any || w
	}
	if any && !s.Weekdays[((day+4)%7+7)%7] {
		return false
	}
	if len(s.Dates) > 0 {
		ds := DateString(day)
		for _, d := range s.Dates {
			if d == ds {
				return true
			}
		}
		return false
	}
	return true
}

// Active tells whether the schedule is active at sec (floor Unix seconds).
func (s Sched) Active(sec int64) bool {
	day := floorDiv(sec, 86400)
	for _, D := range []int64{day - 1, day} {
		if !s.allowed(D) {
			continue
		}
		S := 86400*D + 60*int64(s.Start)
		E := 86400*D + 60*int64(s.End)
		if s.End <= s.Start {
			E += 86400
		}
		if S <= sec && sec < E {
			return true
		}
	}
	return false
}

// HHMM renders minutes of the day.
func HHMM(min int) string { return fmt.Sprintf("%02d:%02d", min/60, min%60) }
