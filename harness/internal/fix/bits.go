package fix

import "math"

func mathFloat64bits(f float64) uint64 { return math.Float64bits(f) }
