// Package fix provides the instance fixture: an embedded NATS server, a bus
// connection and a store (store.NewStore + Store.Run) on a private SQLite file.
package fix

import (
	"fmt"
	"io"
	"log"
	"os"
	"path/filepath"
	"sort"
	"strings"
	"time"

	natsserver "github.com/nats-io/nats-server/v2/server"
	"github.com/nats-io/nats.go"
	"github.com/simpleiot/simpleiot/client"
	"github.com/simpleiot/simpleiot/data"
	"github.com/simpleiot/simpleiot/store"
)

// TB is what the fixture needs from *testing.T / *rapid.T.
type TB interface {
	Fatalf(format string, args ...any)
	Logf(format string, args ...any)
	Helper()
}

// ReqTimeout is the harness's own request timeout (client.SendPoints
// hard-codes 1 s, which would turn machine load into errors).
const ReqTimeout = 20 * time.Second

// Quiet silences the std logger (the store logs every refused/ignored write).
func Quiet() {
	if os.Getenv("VERIF_LOG") == "" {
		log.SetOutput(io.Discard)
	}
}

// Opts configures an instance.
type Opts struct {
	TCP       bool   // listen on 127.0.0.1 (random port unless Port set)
	Port      int    // with TCP: fixed port (restart on the same port)
	AuthToken string // bus token (TCP only)
	Dir       string // reuse a directory (reopen the same store file)
	ID        string // Params.ID, default "inst"
}

// Inst is one running instance.
type Inst struct {
	NS     *natsserver.Server
	NC     *nats.Conn
	St     *store.Store
	Dir    string
	File   string
	RootID string
	URL    string
	Port   int
	opts   Opts
	ownDir bool
	done   chan error
}

// New starts an instance and waits until its root node can be read.
func New(tb TB, o Opts) *Inst {
	tb.Helper()
	in, err := Start(o)
	if err != nil {
		tb.Fatalf("fixture: %v", err)
	}
	return in
}

// Start is New without a TB.
func Start(o Opts) (*Inst, error) {
	in := &Inst{opts: o, done: make(chan error, 1)}
	if o.ID == "" {
		o.ID = "inst"
	}
	if o.Dir == "" {
		d, err := os.MkdirTemp("", "vfix-")
		if err != nil {
			return nil, err
		}
		in.Dir = d
		in.ownDir = true
	} else {
		in.Dir = o.Dir
	}
	in.File = filepath.Join(in.Dir, "s.sqlite")
	so := &natsserver.Options{NoSigs: true, NoLog: true, MaxPayload: 8 << 20, MaxPending: 256 << 20}
	if o.TCP {
		so.Host = "127.0.0.1"
		so.Port = -1
		if o.Port != 0 {
			so.Port = o.Port
		}
		so.Authorization = o.AuthToken
	} else {
		so.DontListen = true
	}
	ns, err := natsserver.NewServer(so)
	if err != nil {
		return nil, fmt.Errorf("nats server: %w", err)
	}
	go ns.Start()
	if !ns.ReadyForConnections(10 * time.Second) {
		ns.Shutdown()
		return nil, fmt.Errorf("nats server not ready")
	}
	in.NS = ns
	if o.TCP {
		in.URL = ns.ClientURL()
		if a, ok := ns.Addr().(interface{ String() string }); ok {
			s := a.String()
			fmt.Sscanf(s[strings.LastIndex(s, ":")+1:], "%d", &in.Port)
		}
	}
	nc, err := in.Connect()
	if err != nil {
		ns.Shutdown()
		return nil, err
	}
	in.NC = nc
	st, err := store.NewStore(store.Params{File: in.File, Nc: nc, ID: o.ID, Server: in.URL, AuthToken: o.AuthToken})
	if err != nil {
		nc.Close()
		ns.Shutdown()
		return nil, fmt.Errorf("NewStore: %w", err)
	}
	in.St = st
	go func() { in.done <- st.Run() }()
	deadline := time.Now().Add(ReqTimeout)
	for {
		nodes, err := client.GetNodes(nc, "root", "all", "", false)
		if err == nil && len(nodes) > 0 {
			in.RootID = nodes[0].ID
			break
		}
		if time.Now().After(deadline) {
			in.Close()
			return nil, fmt.Errorf("root node not readable: %v", err)
		}
		time.Sleep(2 * time.Millisecond)
	}
	return in, nil
}

// Connect opens another bus connection to the instance.
func (in *Inst) Connect() (*nats.Conn, error) {
	opts := []nats.Option{nats.MaxReconnects(-1), nats.ReconnectWait(50 * time.Millisecond)}
	if in.opts.TCP {
		if in.opts.AuthToken != "" {
			opts = append(opts, nats.Token(in.opts.AuthToken))
		}
		return nats.Connect(in.URL, opts...)
	}
	opts = append(opts, nats.InProcessServer(in.NS))
	return nats.Connect("", opts...)
}

// StopStore stops the store and waits for Run to return.
func (in *Inst) StopStore(timeout time.Duration) error {
	if in.St == nil {
		return nil
	}
	in.St.Stop(nil)
	in.St = nil
	select {
	case err := <-in.done:
		return err
	case <-time.After(timeout):
		return fmt.Errorf("Store.Run did not return within %v of Stop", timeout)
	}
}

// Close tears the instance down and removes its directory (if it owns it).
func (in *Inst) Close() {
	_ = in.StopStore(10 * time.Second)
	if in.NC != nil {
		in.NC.Close()
	}
	if in.NS != nil {
		in.NS.Shutdown()
		in.NS.WaitForShutdown()
	}
	if in.ownDir {
		os.RemoveAll(in.Dir)
	}
}

// Write sends points on a p.* subject and returns the store's reply text
// ("" = acknowledged). err is a transport problem (time-out).
func Write(nc *nats.Conn, subject string, pts data.Points) (string, error) {
	b, err := pts.ToPb()
	if err != nil {
		return "", fmt.Errorf("encode: %w", err)
	}
	return WriteRaw(nc, subject, b)
}

// WriteRaw sends a raw payload.
func WriteRaw(nc *nats.Conn, subject string, b []byte) (string, error) {
	m, err := nc.Request(subject, b, ReqTimeout)
	if err != nil {
		return "", err
	}
	return string(m.Data), nil
}

// NodePoints writes node points.
func (in *Inst) NodePoints(id string, pts data.Points) (string, error) {
	return Write(in.NC, "p."+id, pts)
}

// EdgePoints writes edge points.
func (in *Inst) EdgePoints(id, parent string, pts data.Points) (string, error) {
	return Write(in.NC, "p."+id+"."+parent, pts)
}

// Get reads nodes.<parent>.<id>.
func (in *Inst) Get(parent, id string, includeDel bool) ([]data.NodeEdge, error) {
	return client.GetNodes(in.NC, parent, id, "", includeDel)
}

// ---------------------------------------------------------------------------
// canonical dump

// P is a point in comparable form.
type P struct {
	Type, Key string
	TimeNs    int64
	ValueBits uint64
	Value     float64
	Text      string
	Data      string
	Tombstone int
	Origin    string
}

// FromPoint converts (key "" is reported as it is read).
func FromPoint(p data.Point) P {
	return P{Type: p.Type, Key: p.Key, TimeNs: p.Time.UnixNano(), ValueBits: f64bits(p.Value), Value: p.Value,
		Text: p.Text, Data: string(p.Data), Tombstone: p.Tombstone, Origin: p.Origin}
}

func (p P) String() string {
	return fmt.Sprintf("{%q/%q t=%d v=%v(%#x) text=%q data=%x tomb=%d origin=%q}", p.Type, p.Key, p.TimeNs, p.Value,
		p.ValueBits, p.Text, p.Data, p.Tombstone, p.Origin)
}

// E is one edge (placement) with the node's points.
type E struct {
	Parent, ID, Type string
	Hash             uint32
	Points           []P
	EdgePoints       []P
}

func (e E) Key() string { return e.Parent + ">" + e.ID }

func sortPs(ps []P) {
	sort.Slice(ps, func(i, j int) bool {
		a, b := ps[i], ps[j]
		if a.Type != b.Type {
			return a.Type < b.Type
		}
		if a.Key != b.Key {
			return a.Key < b.Key
		}
		return a.TimeNs < b.TimeNs
	})
}

// FromNodeEdge converts a read result.
func FromNodeEdge(n data.NodeEdge) E {
	e := E{Parent: n.Parent, ID: n.ID, Type: n.Type, Hash: n.Hash}
	for _, p := range n.Points {
		e.Points = append(e.Points, FromPoint(p))
	}
	for _, p := range n.EdgePoints {
		e.EdgePoints = append(e.EdgePoints, FromPoint(p))
	}
	sortPs(e.Points)
	sortPs(e.EdgePoints)
	return e
}

// Dump walks the graph from the root (deleted included) and additionally
// reads the given extra (parent,id) placements, which may be detached.
// The result is sorted by (parent,id).
func Dump(nc *nats.Conn, extra [][2]string) ([]E, error) {
	seen := map[string]bool{}
	var out []E
	roots, err := client.GetNodes(nc, "root", "all", "", true)
	if err != nil {
		return nil, fmt.Errorf("read root: %w", err)
	}
	var walk func(n data.NodeEdge, depth int) error
	walk = func(n data.NodeEdge, depth int) error {
		e := FromNodeEdge(n)
		if seen[e.Key()] {
			return nil
		}
		seen[e.Key()] = true
		out = append(out, e)
		if depth > 64 {
			return fmt.Errorf("graph deeper than 64 below %s (cycle?)", e.Key())
		}
		kids, err := client.GetNodes(nc, n.ID, "all", "", true)
		if err != nil {
			return fmt.Errorf("read children of %s: %w", n.ID, err)
		}
		for _, k := range kids {
			if err := walk(k, depth+1); err != nil {
				return err
			}
		}
		return nil
	}
	for _, r := range roots {
		if err := walk(r, 0); err != nil {
			return nil, err
		}
	}
	for _, x := range extra {
		if seen[x[0]+">"+x[1]] {
			continue
		}
		ns, err := client.GetNodes(nc, x[0], x[1], "", true)
		if err != nil {
			return nil, fmt.Errorf("read %s>%s: %w", x[0], x[1], err)
		}
		for _, n := range ns {
			if err := walk(n, 0); err != nil {
				return nil, err
			}
		}
	}
	sort.Slice(out, func(i, j int) bool { return out[i].Key() < out[j].Key() })
	return out, nil
}

// DumpString renders a dump for diffs and messages.
func DumpString(d []E) string {
	var b strings.Builder
	for _, e := range d {
		fmt.Fprintf(&b, "%s type=%q hash=%08x\n", e.Key(), e.Type, e.Hash)
		for _, p := range e.Points {
			fmt.Fprintf(&b, "   np %v\n", p)
		}
		for _, p := range e.EdgePoints {
			fmt.Fprintf(&b, "   ep %v\n", p)
		}
	}
	return b.String()
}

func f64bits(f float64) uint64 { return mathFloat64bits(f) }
