// Package sm is the store state machine shared by C03, C05 and C06 (and used
// by C04/C20 for history generation): rapid-drawn graph operations and point
// writes against a real instance, mirrored in model.Graph, with the oracles
// of the three properties run after every step.
package sm

import (
	"fmt"
	"math"
	"sort"
	"strconv"
	"strings"
	"time"

	"github.com/nats-io/nats.go"
	"github.com/simpleiot/simpleiot/client"
	"github.com/simpleiot/simpleiot/data"
	"pgregory.net/rapid"

	"verif/internal/fix"
	"verif/internal/gen"
	"verif/internal/model"
	"verif/internal/stats"
)

// Opts selects oracles and operation classes.
type Opts struct {
	Refusals bool // generate refusal candidates (C05)
	Maint    bool // request admin.storeMaint every few steps and demand it changes nothing
}

// Machine is one case.
type Machine struct {
	In    *fix.Inst
	G     *model.Graph
	Up    *nats.Subscription
	Opts  Opts
	clock int64
	Log   []string
	Flags map[string]bool
	Count map[string]int
	last  []fix.E // dump after the previous step
	step  int
	sent  []sentBatch
	used  map[string]map[int64]bool // target/identity -> timestamps used

	// Abandoned: a public client helper (hard-coded 1 s request time-out) gave
	// up on a request. The store may still carry it out later, so the model no
	// longer knows the state: the rest of the case does nothing and the case
	// counts as inconclusive, not as a pass or a failure.
	Abandoned bool
}

type sentBatch struct {
	subject string
	pts     data.Points
}

const RootID = "inst"

var nodeIDs = []string{"n0", "n1", "n2", "n3", "n4", "n5", "n'6", "n7"} // one id with a quote: ids are free text and reach SQL and subjects
var nodeTypes = []string{"t", "group", "device", "variable"}

// New starts an instance and seeds the model from its initial content.
func New(t *rapid.T, o Opts) *Machine {
	m := &Machine{Opts: o, Flags: map[string]bool{}, Count: map[string]int{}, used: map[string]map[int64]bool{}}
	m.In = fix.New(t, fix.Opts{ID: RootID})
	// generated "fresh" timestamps lie in the recent past, so that points stamped
	// with the wall clock (zero-time writes, the public client helpers) are newer
	m.clock = int64(1750000000) * 1e9
	sub, err := m.In.NC.SubscribeSync("up.>")
	if err != nil {
		m.In.Close()
		t.Fatalf("subscribe up.>: %v", err)
	}
	sub.SetPendingLimits(-1, -1)
	m.Up = sub
	m.G = model.NewGraph(RootID)
	d, err := fix.Dump(m.In.NC, nil)
	if err != nil {
		m.In.Close()
		t.Fatalf("initial dump: %v", err)
	}
	for _, e := range d {
		me := m.G.AddEdge(e.Parent, e.ID, e.Type)
		for _, p := range e.EdgePoints {
			me.Points.Apply(p)
		}
		m.refreshTomb(me)
		ps := m.G.NodePoints(e.ID)
		for _, p := range e.Points {
			ps.Apply(p)
		}
	}
	m.last = d
	return m
}

func (m *Machine) Close() { m.In.Close() }

func (m *Machine) logf(format string, a ...any) {
	m.Log = append(m.Log, fmt.Sprintf("%02d ", m.step)+fmt.Sprintf(format, a...))
}

// History renders the operation log.
func (m *Machine) History() string { return strings.Join(m.Log, "\n") }

func (m *Machine) tick() int64 { m.clock += 1000; return m.clock }

func (m *Machine) refreshTomb(e *model.Edge) {
	p, ok := e.Points[model.IdentOf(data.PointTypeTombstone, "")]
	e.Tomb = ok && math.Mod(p.Value, 2) != 0 // odd = deleted (an edge deleted, restored and deleted again carries 3)
}

// rooted node ids (have an edge as down), in creation order
func (m *Machine) placed() []string { return m.G.NodeIDs() }

func (m *Machine) freshIDs() []string {
	have := map[string]bool{}
	for _, id := range m.placed() {
		have[id] = true
	}
	for _, id := range m.detachedParents() {
		// already used as a parent: giving it an edge is "attachAbove"
		have[id] = true
	}
	var out []string
	for _, id := range nodeIDs {
		if !have[id] {
			out = append(out, id)
		}
	}
	return out
}

// detachedParents: ids used as a parent that have no edge of their own yet
func (m *Machine) detachedParents() []string {
	have := map[string]bool{"root": true}
	for _, id := range m.placed() {
		have[id] = true
	}
	seen := map[string]bool{}
	var out []string
	for _, k := range m.G.Order {
		p := m.G.Edges[k].Parent
		if !have[p] && !seen[p] {
			seen[p] = true
			out = append(out, p)
		}
	}
	return out
}

func (m *Machine) nonRootEdges() []*model.Edge {
	var out []*model.Edge
	for _, k := range m.G.Order {
		e := m.G.Edges[k]
		if e.Parent != "root" {
			out = append(out, e)
		}
	}
	return out
}

// ---------------------------------------------------------------------------
// writing and expectations

type expectUp struct {
	must    map[string]bool
	allowed map[string]bool
}

// expectedSubjects computes the rebroadcast subjects for a write, on the
// model graph as it is after the write.
func (m *Machine) expectedSubjects(id, parent string) expectUp {
	ex := expectUp{must: map[string]bool{}, allowed: map[string]bool{}}
	suffix := id
	all := false
	if parent != "" {
		suffix = id + "." + parent
		all = true
	}
	ex.must["up."+id+"."+suffix] = true
	for a := range m.G.Ancestors(id, all) {
		ex.must["up."+a+"."+suffix] = true
	}
	for s := range ex.must {
		ex.allowed[s] = true
	}
	// the root sentinel is named unconditionally by the statement; for a node
	// that is not connected to the root it is tolerated, not required
	ex.allowed["up.root."+suffix] = true
	return ex
}

func (m *Machine) drainUp() []*nats.Msg {
	var out []*nats.Msg
	for {
		msg, err := m.Up.NextMsg(time.Microsecond)
		if err != nil {
			return out
		}
		out = append(out, msg)
	}
}

// samePts compares sent and rebroadcast points; a point sent without a time
// is stamped on the way, so its time is not compared.
func samePts(sent, got data.Points) bool {
	if len(sent) != len(got) {
		return false
	}
	for i := range sent {
		a, b := fix.FromPoint(sent[i]), fix.FromPoint(got[i])
		if sent[i].Time.IsZero() {
			a.TimeNs, b.TimeNs = 0, 0
		}
		if a != b {
			return false
		}
	}
	return true
}

// write sends a batch, checks the reply against wantOK, the rebroadcast
// stream against the model and returns whether it was accepted.
// apply is called (before the rebroadcast expectation is computed) if the
// write is expected to be accepted.
func (m *Machine) write(t *rapid.T, id, parent string, pts data.Points, wantOK bool, apply func()) {
	subject := "p." + id
	if parent != "" {
		subject += "." + parent
	}
	if stale := m.drainUp(); len(stale) > 0 {
		t.Fatalf("rebroadcast arrived after the reply of the previous write: %v\nhistory:\n%s", stale[0].Subject, m.History())
	}
	reply, err := fix.Write(m.In.NC, subject, pts)
	if err != nil {
		t.Fatalf("request %s got no reply: %v\nhistory:\n%s", subject, err, m.History())
	}
	msgs := m.drainUp()
	if !wantOK {
		if reply == "" {
			t.Fatalf("write that must be refused was acknowledged: %s %v\nhistory:\n%s", subject, desc(pts), m.History())
		}
		if len(msgs) > 0 {
			t.Fatalf("refused write (%q) was still rebroadcast on %s\nhistory:\n%s", reply, msgs[0].Subject, m.History())
		}
		return
	}
	if reply != "" {
		t.Fatalf("valid write refused: %s %v: %q\nhistory:\n%s", subject, desc(pts), reply, m.History())
	}
	apply()
	m.sent = append(m.sent, sentBatch{subject, pts})
	ex := m.expectedSubjects(id, parent)
	got := map[string]int{}
	for _, msg := range msgs {
		got[msg.Subject]++
		if !ex.allowed[msg.Subject] {
			t.Fatalf("write %s rebroadcast on %s, which is not the node, an ancestor or the root sentinel (expected %v)\nhistory:\n%s",
				subject, msg.Subject, keys(ex.must), m.History())
		}
		ps, err := data.PbDecodePoints(msg.Data)
		if err != nil || !samePts(pts, ps) {
			t.Fatalf("write %s rebroadcast on %s with different points: sent %v got %v (%v)\nhistory:\n%s",
				subject, msg.Subject, desc(pts), desc(ps), err, m.History())
		}
	}
	for s := range ex.must {
		if got[s] == 0 {
			t.Fatalf("write %s was not rebroadcast on %s (got %v)\nhistory:\n%s", subject, s, got, m.History())
		}
	}
	if len(ex.must) >= 4 {
		m.Flags["up>=3ancestors"] = true
	}
	for _, n := range got {
		if n > 1 {
			m.Flags["upDuplicate(diamond)"] = true
		}
	}
}

func keys(m map[string]bool) []string {
	var out []string
	for k := range m {
		out = append(out, k)
	}
	sort.Strings(out)
	return out
}

func desc(ps data.Points) string {
	s := ""
	for _, p := range ps {
		s += fix.FromPoint(p).String() + " "
	}
	return s
}

// ---------------------------------------------------------------------------
// operations

func (m *Machine) applyNode(id string, pts data.Points) {
	s := m.G.NodePoints(id)
	for _, p := range pts {
		s.Apply(fix.FromPoint(p))
	}
}

func (m *Machine) applyEdge(id, parent, typ string, pts data.Points) {
	e := m.G.Edge(parent, id)
	if e == nil {
		e = m.G.AddEdge(parent, id, typ)
	}
	for _, p := range pts {
		if p.Type == data.PointTypeNodeType {
			continue
		}
		e.Points.Apply(fix.FromPoint(p))
	}
	m.refreshTomb(e)
}

func (m *Machine) newEdgePts(t *rapid.T, typ string) data.Points {
	pts := data.Points{
		{Type: data.PointTypeTombstone, Value: 0, Time: time.Unix(0, m.tick())},
		{Type: data.PointTypeNodeType, Text: typ, Time: time.Unix(0, m.tick())},
	}
	if rapid.Bool().Draw(t, "typeFirst") {
		pts[0], pts[1] = pts[1], pts[0]
	}
	if rapid.IntRange(0, 3).Draw(t, "extraEdgePoint") == 0 {
		pts = append(pts, data.Point{Type: "role", Text: "x", Time: time.Unix(0, m.tick())})
	}
	if rapid.IntRange(0, 7).Draw(t, "bornDeleted") == 0 {
		// an edge whose very first batch says "deleted"
		for i := range pts {
			if pts[i].Type == data.PointTypeTombstone {
				pts[i].Value = 1
			}
		}
		m.Flags["edgeBornDeleted"] = true
	} else if rapid.IntRange(0, 4).Draw(t, "noTombstonePoint") == 0 {
		// an edge created by its node type alone is live: it holds no tombstone point at all
		var out data.Points
		for _, p := range pts {
			if p.Type != data.PointTypeTombstone {
				out = append(out, p)
			}
		}
		pts = out
		m.Flags["edgeWithoutTombstonePoint"] = true
	}
	return pts
}

// anyParent: a node that already exists (placed), root included
func (m *Machine) drawParent(t *rapid.T, label string) string {
	return rapid.SampledFrom(m.placed()).Draw(t, label)
}

func (m *Machine) genPoints(t *rapid.T, target string, edge bool) data.Points {
	n := rapid.IntRange(1, 4).Draw(t, "npts")
	var pts data.Points
	ids := append([]string{RootID}, m.placed()...)
	for i := 0; i < n; i++ {
		p := data.Point{Type: gen.Type().Draw(t, "type"), Key: gen.Key().Draw(t, "key")}
		if p.Type == data.PointTypeNodeType || (edge && p.Type == data.PointTypeTombstone) {
			p.Type += "X"
		}
		id := model.IdentOf(p.Type, p.Key)
		k := target + "|" + id.Type + "|" + id.Key
		if m.used[k] == nil {
			m.used[k] = map[int64]bool{}
		}
		var ns int64
		if rapid.IntRange(0, 2).Draw(t, "fresh") > 0 {
			ns = m.tick()
		} else {
			ns = gen.TimeNs().Draw(t, "time")
		}
		for m.used[k][ns] {
			ns++
		}
		m.used[k][ns] = true
		p.Time = time.Unix(0, ns)
		gen.PointFields(t, &p, ids)
		pts = append(pts, p)
	}
	return pts
}

// adopt reads back a point that the store (or a client helper) stamped with
// the wall clock, checks it against what was sent and the time window, and
// takes its actual time into the model.
func (m *Machine) adopt(t *rapid.T, id, parent string, sent data.Point, t0, t1 time.Time) {
	rp := parent
	if rp == "" {
		rp = "all"
	}
	ns, err := m.In.Get(rp, id, true)
	if err != nil || len(ns) == 0 {
		t.Fatalf("read of %s %s after a wall-clock stamped write: %v %v\nhistory:\n%s", id, parent, ns, err, m.History())
	}
	pts := ns[0].Points
	if parent != "" {
		pts = ns[0].EdgePoints
	}
	want := model.IdentOf(sent.Type, sent.Key)
	for _, p := range pts {
		if model.IdentOf(p.Type, p.Key) != want {
			continue
		}
		if p.Value != sent.Value || p.Text != sent.Text {
			t.Fatalf("%s %s %v: wrote value %v text %q without a time, read back %v\nhistory:\n%s", id, parent, want, sent.Value, sent.Text, fix.FromPoint(p), m.History())
		}
		if p.Time.Before(t0.Add(-2*time.Second)) || p.Time.After(t1.Add(2*time.Second)) {
			t.Fatalf("%s %s %v: a point written without a time carries %v, not the time of the write (%v)\nhistory:\n%s", id, parent, want, p.Time, t0, m.History())
		}
		fp := fix.FromPoint(p)
		if parent == "" {
			m.G.NodePoints(id)[want] = fp
		} else {
			e := m.G.Edge(parent, id)
			e.Points[want] = fp
			m.refreshTomb(e)
		}
		return
	}
	t.Fatalf("%s %s: identity %v missing after an acknowledged write\nhistory:\n%s", id, parent, want, m.History())
}

// Actions returns the rapid state-machine action map; check runs after every step.
func (m *Machine) Actions(check func(t *rapid.T)) map[string]func(*rapid.T) {
	acts := map[string]func(*rapid.T){
		"create": func(t *rapid.T) {
			fresh := m.freshIDs()
			if len(fresh) == 0 {
				t.Skip("no fresh id")
			}
			id := rapid.SampledFrom(fresh).Draw(t, "id")
			parent := m.drawParent(t, "parent")
			typ := rapid.SampledFrom(nodeTypes).Draw(t, "ntype")
			pointsFirst := rapid.Bool().Draw(t, "pointsFirst")
			npts := m.genPoints(t, id, false)
			epts := m.newEdgePts(t, typ)
			m.logf("create %s under %s type=%s pointsFirst=%v", id, parent, typ, pointsFirst)
			if pointsFirst {
				m.Flags["pointsFirst"] = true
				m.write(t, id, "", npts, true, func() { m.applyNode(id, npts) })
				m.write(t, id, parent, epts, true, func() { m.applyEdge(id, parent, typ, epts) })
			} else {
				m.write(t, id, parent, epts, true, func() { m.applyEdge(id, parent, typ, epts) })
				m.write(t, id, "", npts, true, func() { m.applyNode(id, npts) })
			}
		},
		"mirror": func(t *rapid.T) {
			var cands [][2]string
			for _, id := range m.placed() {
				if id == RootID {
					continue
				}
				for _, p := range m.placed() {
					if m.G.Edge(p, id) == nil && !m.G.WouldCycle(p, id) {
						cands = append(cands, [2]string{id, p})
					}
				}
			}
			if len(cands) == 0 {
				t.Skip("no mirror candidate")
			}
			c := rapid.SampledFrom(cands).Draw(t, "mirror")
			typ := m.typeOf(c[0])
			epts := m.newEdgePts(t, typ)
			m.logf("mirror %s under %s", c[0], c[1])
			m.Flags["mirror"] = true
			m.write(t, c[0], c[1], epts, true, func() { m.applyEdge(c[0], c[1], typ, epts) })
		},
		"childOfDetached": func(t *rapid.T) {
			// a node placed under a parent id that has no edge of its own (yet)
			fresh := m.freshIDs()
			if len(fresh) < 2 {
				t.Skip("not enough fresh ids")
			}
			pid := fresh[len(fresh)-1]
			if dp := m.detachedParents(); len(dp) > 0 && rapid.Bool().Draw(t, "reuseDetached") {
				pid = rapid.SampledFrom(dp).Draw(t, "detachedParent")
			}
			var cands []string
			for _, id := range append(fresh[:len(fresh)-1:len(fresh)-1], m.placed()...) {
				if id != RootID && id != pid && m.G.Edge(pid, id) == nil && !m.G.WouldCycle(pid, id) {
					cands = append(cands, id)
				}
			}
			if len(cands) == 0 {
				t.Skip("no candidate")
			}
			id := rapid.SampledFrom(cands).Draw(t, "id")
			typ := m.typeOf(id)
			if typ == "" {
				typ = rapid.SampledFrom(nodeTypes).Draw(t, "ntype")
			}
			epts := m.newEdgePts(t, typ)
			m.logf("place %s under detached parent %s", id, pid)
			m.Flags["detached"] = true
			m.write(t, id, pid, epts, true, func() { m.applyEdge(id, pid, typ, epts) })
			if rapid.Bool().Draw(t, "withPoints") {
				npts := m.genPoints(t, id, false)
				m.write(t, id, "", npts, true, func() { m.applyNode(id, npts) })
			}
		},
		"deepChain": func(t *rapid.T) {
			// once in some cases: a chain of 18-24 nodes below a placed node, so that
			// later writes happen far below the root (hash propagation and the
			// rebroadcast walk have to cover every level, however many there are)
			if m.Flags["deepChain"] || rapid.IntRange(0, 2).Draw(t, "deepNow") != 0 {
				t.Skip("no deep chain now")
			}
			parent := m.drawParent(t, "parent")
			n := rapid.IntRange(18, 24).Draw(t, "depth")
			m.logf("deep chain of %d nodes below %s", n, parent)
			m.Flags["deepChain"] = true
			for i := 0; i < n; i++ {
				id := fmt.Sprintf("d%02d", i)
				epts := data.Points{{Type: data.PointTypeTombstone, Value: 0, Time: time.Unix(0, m.tick())}, {Type: data.PointTypeNodeType, Text: "group", Time: time.Unix(0, m.tick())}}
				p := parent
				m.write(t, id, p, epts, true, func() { m.applyEdge(id, p, "group", epts) })
				parent = id
			}
			npts := m.genPoints(t, parent, false)
			deepest := parent
			m.write(t, deepest, "", npts, true, func() { m.applyNode(deepest, npts) })
		},
		"sameTime": func(t *rapid.T) {
			// a write that carries the time of the stored point of its identity but
			// other content (two writers stamping the same instant). Which of the two
			// the store keeps is not C03's business: the model takes over what is
			// read back, and the hashes have to match that.
			type cand struct {
				id, parent string
				p          fix.P
			}
			var cands []cand
			for _, k := range m.G.Order {
				e := m.G.Edges[k]
				for _, p := range e.Points {
					if p.Type != data.PointTypeTombstone && p.Type != "zt0" && p.Type != "zt1" && p.TimeNs != 0 {
						cands = append(cands, cand{e.ID, e.Parent, p})
					}
				}
			}
			for _, id := range m.placed() {
				for _, p := range m.G.NodePoints(id) {
					if p.Type != "zt0" && p.Type != "zt1" && p.TimeNs != 0 {
						cands = append(cands, cand{id, "", p})
					}
				}
			}
			if len(cands) == 0 {
				t.Skip("no stored point")
			}
			sort.Slice(cands, func(i, j int) bool {
				a, b := cands[i], cands[j]
				return a.id+"|"+a.parent+"|"+a.p.Type+"|"+a.p.Key < b.id+"|"+b.parent+"|"+b.p.Type+"|"+b.p.Key
			})
			c := cands[rapid.IntRange(0, len(cands)-1).Draw(t, "stored")]
			np := data.Point{Type: c.p.Type, Key: c.p.Key, Time: time.Unix(0, c.p.TimeNs), Value: c.p.Value + 1, Text: c.p.Text + "'", Tombstone: c.p.Tombstone, Origin: "same-time"}
			if math.IsInf(np.Value, 0) || np.Value == c.p.Value {
				np.Value = 7
			}
			m.logf("same time, other content on %s %s: %s", c.id, c.parent, desc(data.Points{np}))
			m.Flags["sameTimeOtherContent"] = true
			id := model.IdentOf(np.Type, np.Key)
			m.write(t, c.id, c.parent, data.Points{np}, true, func() {
				if c.parent == "" {
					m.G.NodePoints(c.id)[id] = fix.FromPoint(np)
				} else {
					m.G.Edge(c.parent, c.id).Points[id] = fix.FromPoint(np)
				}
			})
			// with two contents at one instant a later re-delivery of either batch
			// decides again: keep those out of the re-delivery pool
			subj := "p." + c.id
			if c.parent != "" {
				subj += "." + c.parent
			}
			kept := m.sent[:0]
			for _, b := range m.sent {
				touches := false
				if b.subject == subj {
					for _, bp := range b.pts {
						if model.IdentOf(bp.Type, bp.Key) == id {
							touches = true
						}
					}
				}
				if !touches {
					kept = append(kept, b)
				}
			}
			m.sent = kept
			rp := c.parent
			if rp == "" {
				rp = "all"
			}
			ns, err := m.In.Get(rp, c.id, true)
			if err != nil || len(ns) == 0 {
				t.Fatalf("read of %s %s: %v %v", c.id, c.parent, ns, err)
			}
			pts := ns[0].Points
			if c.parent != "" {
				pts = ns[0].EdgePoints
			}
			for _, p := range pts {
				if model.IdentOf(p.Type, p.Key) != id {
					continue
				}
				got := fix.FromPoint(p)
				got.Key = id.Key
				old := c.p
				if got.ValueBits == old.ValueBits && got.Text == old.Text {
					// the store kept the earlier content
					if c.parent == "" {
						m.G.NodePoints(c.id)[id] = old
					} else {
						m.G.Edge(c.parent, c.id).Points[id] = old
					}
				}
			}
		},
		"bigBatch": func(t *rapid.T) {
			// an array-like configuration: hundreds of points in one batch
			if m.Flags["bigBatch"] || rapid.IntRange(0, 2).Draw(t, "bigNow") != 0 {
				t.Skip("no big batch now")
			}
			m.Flags["bigBatch"] = true
			id := rapid.SampledFrom(m.placed()).Draw(t, "node")
			n := rapid.SampledFrom([]int{129, 200, 257, 300}).Draw(t, "bigN")
			var pts data.Points
			for i := 0; i < n; i++ {
				pts = append(pts, data.Point{Type: "arr", Key: strconv.Itoa(i), Value: float64(i), Time: time.Unix(0, m.tick()), Origin: "big"})
			}
			m.logf("batch of %d points on %s", n, id)
			m.write(t, id, "", pts, true, func() { m.applyNode(id, pts) })
		},
		"attachAbove": func(t *rapid.T) {
			dp := m.detachedParents()
			if len(dp) == 0 {
				t.Skip("no detached parent")
			}
			id := rapid.SampledFrom(dp).Draw(t, "detached")
			var cands []string
			for _, p := range m.placed() {
				if !m.G.WouldCycle(p, id) {
					cands = append(cands, p)
				}
			}
			if len(cands) == 0 {
				t.Skip("no parent")
			}
			parent := rapid.SampledFrom(cands).Draw(t, "parent")
			typ := rapid.SampledFrom(nodeTypes).Draw(t, "ntype")
			epts := m.newEdgePts(t, typ)
			m.logf("attach edge above populated subtree: %s under %s", id, parent)
			m.Flags["attachAbove"] = true
			m.write(t, id, parent, epts, true, func() { m.applyEdge(id, parent, typ, epts) })
		},
		"tombstone": func(t *rapid.T) {
			es := m.nonRootEdges()
			if len(es) == 0 {
				t.Skip("no edge")
			}
			e := rapid.SampledFrom(es).Draw(t, "edge")
			v := float64(rapid.IntRange(0, 1).Draw(t, "deleted"))
			if rapid.IntRange(0, 2).Draw(t, "tombCount") == 0 {
				// counted tombstones: 3, 5 read as deleted, 2, 4 as restored
				v += float64(2 * rapid.IntRange(1, 2).Draw(t, "tombRounds"))
				m.Flags["countedTombstone"] = true
			}
			ns := m.tick()
			if rapid.IntRange(0, 4).Draw(t, "staleTomb") == 0 {
				ns = int64(1700000000)*1e9 + int64(m.step)
			}
			pts := data.Points{{Type: data.PointTypeTombstone, Value: v, Time: time.Unix(0, ns)}}
			if rapid.Bool().Draw(t, "zeroKey") {
				pts[0].Key = "0"
			}
			m.logf("tombstone=%v on %s>%s t=%d", v, e.Parent, e.ID, ns)
			m.Flags["tombstone"] = true
			m.write(t, e.ID, e.Parent, pts, true, func() { m.applyEdge(e.ID, e.Parent, e.Type, pts) })
		},
		"nodePoints": func(t *rapid.T) {
			ids := m.placed()
			if f := m.freshIDs(); len(f) > 0 && rapid.IntRange(0, 5).Draw(t, "unplaced") == 0 {
				ids = f[:1]
			}
			id := rapid.SampledFrom(ids).Draw(t, "node")
			pts := m.genPoints(t, id, false)
			m.logf("node points %s: %s", id, desc(pts))
			m.write(t, id, "", pts, true, func() { m.applyNode(id, pts) })
		},
		"edgePoints": func(t *rapid.T) {
			var es []*model.Edge
			for _, k := range m.G.Order {
				es = append(es, m.G.Edges[k])
			}
			e := rapid.SampledFrom(es).Draw(t, "edge")
			pts := m.genPoints(t, e.Parent+">"+e.ID, true)
			m.logf("edge points %s>%s: %s", e.Parent, e.ID, desc(pts))
			if len(m.G.Parents(e.ID, true)) > 1 {
				m.Flags["edgePointOnMirror"] = true
			}
			m.Flags["edgePoints"] = true
			m.write(t, e.ID, e.Parent, pts, true, func() { m.applyEdge(e.ID, e.Parent, e.Type, pts) })
		},
		"redeliver": func(t *rapid.T) {
			if len(m.sent) == 0 {
				t.Skip("nothing sent")
			}
			b := rapid.SampledFrom(m.sent).Draw(t, "batch")
			m.logf("redeliver %s: %s", b.subject, desc(b.pts))
			m.Flags["redeliver"] = true
			parts := strings.Split(b.subject, ".")
			parent := ""
			if len(parts) == 3 {
				parent = parts[2]
			}
			m.write(t, parts[1], parent, b.pts, true, func() {})
			m.sent = m.sent[:len(m.sent)-1]
		},
		"zeroTime": func(t *rapid.T) {
			// points without a time are stamped by the store; reserved identities
			// (types zt0/zt1), so that only wall-clock stamps compete with each other
			var es []*model.Edge
			for _, k := range m.G.Order {
				es = append(es, m.G.Edges[k])
			}
			e := rapid.SampledFrom(es).Draw(t, "edge")
			onEdge := rapid.Bool().Draw(t, "onEdge")
			pts := data.Points{{Type: rapid.SampledFrom([]string{"zt0", "zt1"}).Draw(t, "ztype"), Key: rapid.SampledFrom([]string{"", "0", "k"}).Draw(t, "zkey"),
				Value: float64(rapid.IntRange(-5, 5).Draw(t, "zvalue")), Text: rapid.SampledFrom([]string{"", "z"}).Draw(t, "ztext"), Origin: "zt"}}
			id, parent := e.ID, ""
			if onEdge {
				parent = e.Parent
			}
			m.logf("zero-time point on %s %s: %s/%s=%v", id, parent, pts[0].Type, pts[0].Key, pts[0].Value)
			m.Flags["zeroTime"] = true
			t0 := time.Now()
			m.write(t, id, parent, pts, true, func() {})
			m.sent = m.sent[:len(m.sent)-1] // not re-deliverable: the stamp is the store's
			m.adopt(t, id, parent, pts[0], t0, time.Now())
		},
		"helper": func(t *rapid.T) {
			// the public client helpers (wall-clock stamps, 1 s request time-out)
			kind := rapid.SampledFrom([]string{"mirror", "move", "delete"}).Draw(t, "helper")
			es := m.nonRootEdges()
			if len(es) == 0 {
				t.Skip("no edge")
			}
			e := rapid.SampledFrom(es).Draw(t, "edge")
			var err error
			t0 := time.Now()
			switch kind {
			case "delete":
				m.logf("client.DeleteNode(%s, %s)", e.ID, e.Parent)
				err = client.DeleteNode(m.In.NC, e.ID, e.Parent, "helper")
				if err == nil {
					m.adopt(t, e.ID, e.Parent, data.Point{Type: data.PointTypeTombstone, Value: 1, Origin: "helper"}, t0, time.Now())
				}
			case "mirror", "move":
				var cands []string
				for _, p := range m.placed() {
					if p != e.Parent && p != e.ID && !m.G.WouldCycle(p, e.ID) {
						cands = append(cands, p)
					}
				}
				if len(cands) == 0 {
					t.Skip("no new parent")
				}
				np := rapid.SampledFrom(cands).Draw(t, "newParent")
				if kind == "mirror" {
					m.logf("client.MirrorNode(%s, %s)", e.ID, np)
					err = client.MirrorNode(m.In.NC, e.ID, np, "helper")
				} else {
					m.logf("client.MoveNode(%s, %s -> %s)", e.ID, e.Parent, np)
					err = client.MoveNode(m.In.NC, e.ID, e.Parent, np, "helper")
				}
				if err == nil {
					if m.G.Edge(np, e.ID) == nil {
						m.G.AddEdge(np, e.ID, e.Type)
					}
					m.adopt(t, e.ID, np, data.Point{Type: data.PointTypeTombstone, Value: 0, Origin: "helper"}, t0, time.Now())
					if kind == "move" {
						m.adopt(t, e.ID, e.Parent, data.Point{Type: data.PointTypeTombstone, Value: 1}, t0, time.Now())
					}
				}
				m.Flags["mirror"] = true
			}
			if err != nil {
				if strings.Contains(err.Error(), "timeout") {
					m.abandon("client helper request timed out (1 s, hard-coded)")
					return
				}
				t.Fatalf("client helper %s on %s>%s failed: %v\nhistory:\n%s", kind, e.Parent, e.ID, err, m.History())
			}
			m.Flags["helper"] = true
			m.drainUp()
		},
		"": func(t *rapid.T) {
			m.step++
			check(t)
		},
	}
	if m.Opts.Refusals {
		// several names so that about a quarter of the steps are refusal candidates
		acts["refusal"] = m.refusal
		acts["refusalB"] = m.refusal
		acts["refusalC"] = m.refusal
	}
	for name, f := range acts {
		f := f
		acts[name] = func(t *rapid.T) {
			if m.Abandoned {
				return
			}
			f(t)
		}
	}
	return acts
}

func (m *Machine) abandon(why string) {
	m.Abandoned = true
	m.logf("ABANDONED: %s", why)
	stats.Inconclusive(why)
}

func (m *Machine) typeOf(id string) string {
	for _, k := range m.G.Order {
		if e := m.G.Edges[k]; e.ID == id {
			return e.Type
		}
	}
	return ""
}

// refusal issues one write that must be answered with an error and checks
// that it leaves no trace.
func (m *Machine) refusal(t *rapid.T) {
	kind := rapid.SampledFrom([]string{"selfParent", "cycle", "cycle", "deleteRoot", "noNodeType", "nanNode", "nanEdge", "garbage", "helperIntoSubtree"}).Draw(t, "refusalKind")
	now := func() time.Time { return time.Unix(0, m.tick()) }
	newEdge := func(typ string) data.Points {
		return data.Points{{Type: data.PointTypeTombstone, Value: 0, Time: now()}, {Type: data.PointTypeNodeType, Text: typ, Time: now()}}
	}
	switch kind {
	case "selfParent":
		id := rapid.SampledFrom(append(m.placed(), "n7")).Draw(t, "id")
		m.logf("REFUSAL self parent %s", id)
		m.write(t, id, id, newEdge("t"), false, nil)
	case "cycle":
		// an edge parent -> id where id is already an ancestor of parent (through any edges)
		var cands [][2]string
		for _, id := range m.placed() {
			// (the root included: placing it below one of its descendants closes a cycle like any other)
			for _, k := range m.G.Order {
				p := m.G.Edges[k].ID
				if p != id && m.G.Edge(p, id) == nil && m.G.Ancestors(p, true)[id] {
					cands = append(cands, [2]string{id, p})
				}
			}
		}
		if len(cands) == 0 {
			t.Skip("no cycle candidate")
		}
		var del [][2]string
		for _, c := range cands {
			if !m.G.Ancestors(c[1], false)[c[0]] {
				del = append(del, c)
			}
		}
		if len(del) > 0 && rapid.Bool().Draw(t, "preferDeletedPath") {
			cands = del
		}
		c := rapid.SampledFrom(cands).Draw(t, "cycleEdge")
		throughDeleted := !m.G.Ancestors(c[1], false)[c[0]]
		m.logf("REFUSAL cycle: %s under its descendant %s (throughDeleted=%v)", c[0], c[1], throughDeleted)
		if throughDeleted {
			m.Flags["cycleThroughDeleted"] = true
		}
		m.Flags["cycle"] = true
		ce := newEdge(m.typeOf(c[0]))
		if rapid.IntRange(0, 3).Draw(t, "cycleEdgeBornDeleted") == 0 {
			ce[0].Value = 1 // a cycle is a cycle, also when the closing edge arrives deleted
		}
		m.write(t, c[0], c[1], ce, false, nil)
	case "deleteRoot":
		// key "" and key "0" are the same identity
		// any value that reads as "deleted" (not an exact even number)
		pts := data.Points{{Type: data.PointTypeTombstone, Key: rapid.SampledFrom([]string{"", "0"}).Draw(t, "tombKey"),
			Value: rapid.SampledFrom([]float64{1, 1, 3, 5, 2.5, 1001}).Draw(t, "tombValue"), Time: now()}}
		switch rapid.IntRange(0, 2).Draw(t, "withOther") {
		case 1:
			pts = append(data.Points{{Type: "description", Text: "x", Time: now()}}, pts...)
		case 2:
			pts = append(pts, data.Point{Type: "description", Text: "y", Time: now()})
		}
		m.logf("REFUSAL delete root: %s", desc(pts))
		m.write(t, RootID, "root", pts, false, nil)
	case "noNodeType":
		fresh := m.freshIDs()
		if len(fresh) == 0 {
			t.Skip("no fresh id")
		}
		id := fresh[0]
		parent := m.drawParent(t, "parent")
		m.logf("REFUSAL first edge of %s under %s without node type", id, parent)
		m.write(t, id, parent, data.Points{{Type: data.PointTypeTombstone, Value: 0, Time: now()}, {Type: "role", Text: "r", Time: now()}}, false, nil)
	case "nanNode", "nanEdge":
		edge := kind == "nanEdge"
		var id, parent, tkey string
		if edge {
			es := m.nonRootEdges()
			if len(es) == 0 {
				t.Skip("no edge")
			}
			e := rapid.SampledFrom(es).Draw(t, "edge")
			id, parent, tkey = e.ID, e.Parent, e.Parent+">"+e.ID
		} else {
			id = rapid.SampledFrom(m.placed()).Draw(t, "node")
			tkey = id
		}
		pts := m.genPoints(t, tkey, edge)
		pos := rapid.IntRange(0, len(pts)-1).Draw(t, "nanPos")
		nan := math.NaN()
		if rapid.Bool().Draw(t, "nanPayload") {
			nan = math.Float64frombits(0x7ff8000000000001 | uint64(rapid.IntRange(0, 1).Draw(t, "nanSign"))<<63)
		}
		pts[pos].Value = nan
		if rapid.Bool().Draw(t, "nanStale") {
			// older than what is stored for that identity (or simply very old): a NaN
			// is refused whether or not the point would have been kept
			pts[pos].Time = time.Unix(0, rapid.Int64Range(1, 1000).Draw(t, "nanOldTime"))
			m.Flags["nanInStalePoint"] = true
			// preferably for an identity the target already holds a newer point of
			var held []fix.P
			if edge {
				for _, hp := range m.G.Edge(parent, id).Points {
					if hp.Type != data.PointTypeTombstone {
						held = append(held, hp)
					}
				}
			} else {
				for _, hp := range m.G.NodePoints(id) {
					held = append(held, hp)
				}
			}
			if len(held) > 0 {
				sort.Slice(held, func(i, j int) bool { return held[i].Type+"|"+held[i].Key < held[j].Type+"|"+held[j].Key })
				hp := held[rapid.IntRange(0, len(held)-1).Draw(t, "nanIdentity")]
				dup := false
				for i := range pts {
					if i != pos && model.IdentOf(pts[i].Type, pts[i].Key) == model.IdentOf(hp.Type, hp.Key) {
						dup = true
					}
				}
				if !dup {
					pts[pos].Type, pts[pos].Key = hp.Type, hp.Key
				}
			}
		}
		if rapid.IntRange(0, 2).Draw(t, "nanShadowed") == 0 {
			// the batch also carries a newer, harmless point of the NaN point's
			// identity: in-batch de-duplication would drop the NaN one, the batch is
			// refused all the same
			later := pts[pos]
			later.Value = 1
			later.Time = time.Unix(0, m.tick())
			if later.Time.Before(pts[pos].Time) {
				later.Time = pts[pos].Time.Add(time.Nanosecond)
			}
			at := rapid.IntRange(0, len(pts)).Draw(t, "shadowAt")
			pts = append(pts[:at], append(data.Points{later}, pts[at:]...)...)
			m.Flags["nanShadowedInBatch"] = true
		}
		if len(pts) > 1 && pos > 0 && pos < len(pts)-1 {
			m.Flags["nanInMiddle"] = true
		}
		m.Flags["nan"] = true
		m.logf("REFUSAL NaN at %d of %d in %s points of %s %s", pos, len(pts), kind, id, parent)
		m.write(t, id, parent, pts, false, nil)
	case "helperIntoSubtree":
		// the public helpers: a move or mirror of a node below itself or below one
		// of its descendants must fail as a whole and leave the node where it was
		var cands [][3]string // id, a live parent of id, target
		for _, e := range m.nonRootEdges() {
			if e.Tomb {
				continue
			}
			for _, p := range m.placed() {
				if p != e.Parent && (p == e.ID || m.G.Ancestors(p, true)[e.ID]) && m.G.Edge(p, e.ID) == nil {
					cands = append(cands, [3]string{e.ID, e.Parent, p})
				}
			}
		}
		if len(cands) == 0 {
			t.Skip("no node with a descendant")
		}
		c := rapid.SampledFrom(cands).Draw(t, "helperCycle")
		move := rapid.Bool().Draw(t, "helperMove")
		m.drainUp()
		var err error
		if move {
			m.logf("REFUSAL client.MoveNode(%s, %s -> %s) below itself", c[0], c[1], c[2])
			err = client.MoveNode(m.In.NC, c[0], c[1], c[2], "helper")
		} else {
			m.logf("REFUSAL client.MirrorNode(%s, %s) below itself", c[0], c[2])
			err = client.MirrorNode(m.In.NC, c[0], c[2], "helper")
		}
		if err == nil {
			t.Fatalf("client helper placed %s below itself (under %s) without an error\nhistory:\n%s", c[0], c[2], m.History())
		}
		if strings.Contains(err.Error(), "timeout") {
			m.abandon("client helper request timed out (1 s, hard-coded)")
			return
		}
		if msgs := m.drainUp(); len(msgs) > 0 {
			t.Fatalf("refused helper call (%v) still caused a rebroadcast on %s\nhistory:\n%s", err, msgs[0].Subject, m.History())
		}
		m.Flags["helperRefused"] = true
	case "garbage":
		subject := "p." + rapid.SampledFrom(m.placed()).Draw(t, "node")
		payload := rapid.SliceOfN(rapid.Byte(), 1, 20).Draw(t, "payload")
		if _, err := data.PbDecodePoints(payload); err == nil {
			t.Skip("payload decodes")
		}
		m.logf("REFUSAL undecodable payload on %s: %x", subject, payload)
		m.drainUp()
		// the statement does not say how an undecodable payload is answered, only
		// that the instance answers and that nothing changes
		if _, err := fix.WriteRaw(m.In.NC, subject, payload); err != nil {
			t.Fatalf("undecodable payload on %s: no reply: %v", subject, err)
		}
		if msgs := m.drainUp(); len(msgs) > 0 {
			t.Fatalf("undecodable payload rebroadcast on %s", msgs[0].Subject)
		}
	}
	m.Count["refusals"]++
	// no trace: the dump equals the one taken after the previous step
	d, err := fix.Dump(m.In.NC, m.G.EdgeKeys())
	if err != nil {
		t.Fatalf("instance unreadable after refused write: %v\nhistory:\n%s", err, m.History())
	}
	if a, b := fix.DumpString(m.last), fix.DumpString(d); a != b {
		t.Fatalf("refused write changed the content:\nbefore:\n%s\nafter:\n%s\nhistory:\n%s", a, b, m.History())
	}
	// and the instance keeps answering: a valid write goes through
	pts := data.Points{{Type: "afterRefusal", Time: now(), Value: float64(m.step)}}
	m.write(t, RootID, "", pts, true, func() { m.applyNode(RootID, pts) })
}

// ---------------------------------------------------------------------------
// oracles run after every step

// Check compares the instance with the model: edge set, types, points,
// Merkle hashes; optionally store maintenance must change nothing.
func (m *Machine) Check(t *rapid.T) {
	d, err := fix.Dump(m.In.NC, m.G.EdgeKeys())
	if err != nil {
		t.Fatalf("dump: %v\nhistory:\n%s", err, m.History())
	}
	m.last = d
	seen := map[string]bool{}
	for _, e := range d {
		seen[e.Key()] = true
		me := m.G.Edges[e.Key()]
		if me == nil {
			t.Fatalf("instance has edge %s the model does not\nhistory:\n%s", e.Key(), m.History())
		}
		if e.Type != me.Type {
			t.Fatalf("edge %s type %q, model %q\nhistory:\n%s", e.Key(), e.Type, me.Type, m.History())
		}
		if s := model.DiffPoints("node "+e.ID, e.Points, m.G.NodePoints(e.ID), false); s != "" {
			t.Fatalf("%s\nhistory:\n%s", s, m.History())
		}
		if s := model.DiffPoints("edge "+e.Key(), e.EdgePoints, me.Points, false); s != "" {
			t.Fatalf("%s\nhistory:\n%s", s, m.History())
		}
	}
	for k := range m.G.Edges {
		if !seen[k] {
			t.Fatalf("edge %s missing from the instance\nhistory:\n%s", k, m.History())
		}
	}
	if s := model.CheckHashes(d); s != "" {
		t.Fatalf("hashes out of step with content:\n%s\ndump:\n%s\nhistory:\n%s", s, fix.DumpString(d), m.History())
	}
	// exactly one root
	roots, err := m.In.Get("root", "all", true)
	if err != nil || len(roots) != 1 || roots[0].ID != RootID {
		t.Fatalf("root read: %v %v\nhistory:\n%s", roots, err, m.History())
	}
	if m.Opts.Maint && m.step%4 == 0 {
		msg, err := m.In.NC.Request("admin.storeVerify", nil, fix.ReqTimeout)
		if err != nil || len(msg.Data) != 0 {
			t.Fatalf("admin.storeVerify: %v %v\nhistory:\n%s", err, msg, m.History())
		}
		msg, err = m.In.NC.Request("admin.storeMaint", nil, fix.ReqTimeout)
		if err != nil || len(msg.Data) != 0 {
			t.Fatalf("admin.storeMaint: %v %v\nhistory:\n%s", err, msg, m.History())
		}
		d2, err := fix.Dump(m.In.NC, m.G.EdgeKeys())
		if err != nil {
			t.Fatalf("dump after maintenance: %v", err)
		}
		if a, b := fix.DumpString(d), fix.DumpString(d2); a != b {
			t.Fatalf("store maintenance found something to repair:\nbefore:\n%s\nafter:\n%s\nhistory:\n%s", a, b, m.History())
		}
		m.Count["maint"]++
	}
}

// Shape classifies the graph.
func (m *Machine) Shape() []string {
	var out []string
	mirror, diamond, tomb := false, false, false
	for _, id := range m.placed() {
		ps := m.G.Parents(id, true)
		if len(ps) > 1 {
			mirror = true
			// diamond: two parents with a common ancestor
			a0 := m.G.Ancestors(ps[0], true)
			a0[ps[0]] = true
			for _, p := range ps[1:] {
				a1 := m.G.Ancestors(p, true)
				a1[p] = true
				for x := range a1 {
					if a0[x] && x != "root" {
						diamond = true
					}
				}
			}
		}
	}
	for _, e := range m.G.Edges {
		if e.Tomb {
			tomb = true
		}
	}
	if mirror {
		out = append(out, "mirror")
	}
	if diamond {
		out = append(out, "diamond")
	}
	if tomb {
		out = append(out, "tombstonedEdge")
	}
	if len(m.detachedParents()) > 0 {
		out = append(out, "detachedSubtree")
	}
	have := map[string]bool{}
	for _, x := range out {
		have[x] = true
	}
	for f := range m.Flags {
		if !have[f] {
			out = append(out, f)
		}
	}
	sort.Strings(out)
	return out
}
