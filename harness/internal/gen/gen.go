// Package gen holds the shared rapid generators. Every random choice in a
// property goes through rapid so that shrinking and replay work.
package gen

import (
	"math"
	"time"

	"github.com/simpleiot/simpleiot/data"
	"pgregory.net/rapid"
)

// Types is the adversarial alphabet of point types: short, colliding when
// concatenated with keys, non-ASCII, with blanks and dots.
var Types = []string{"a", "ab", "b", "", "value", "description", "é", "a b", "a.b", "tombstone", "0", "a0"}

// Keys is the alphabet of point keys ("" and "0" are one identity).
var Keys = []string{"", "0", "1", "b", "00", "-1", "k/é", "0 ", "a"}

// Type draws a point type.
func Type() *rapid.Generator[string] {
	return rapid.OneOf(rapid.SampledFrom(Types), rapid.SampledFrom(Types), rapid.StringN(0, 6, 12))
}

// Key draws a point key.
func Key() *rapid.Generator[string] {
	return rapid.OneOf(rapid.SampledFrom(Keys), rapid.SampledFrom(Keys), rapid.StringN(0, 4, 8))
}

var hostileTexts = []string{"", "x", "\x00", "a\x00b", "line1\nline2", "\t", "🎉 emoji", "‮RTL", "ü", "'; DROP TABLE edges; --", "%s%d", " lead", "trail ", "\"q\""}

// Text draws a valid UTF-8 text.
func Text() *rapid.Generator[string] {
	return rapid.OneOf(rapid.SampledFrom(hostileTexts), rapid.StringN(0, 40, 300), rapid.Just(""))
}

var specialFloats = []float64{0, math.Copysign(0, -1), 1, -1, 0.5, math.SmallestNonzeroFloat64, -math.SmallestNonzeroFloat64,
	math.MaxFloat64, -math.MaxFloat64, math.Inf(1), math.Inf(-1), 1 << 53, 1<<53 + 2, -(1 << 62), 1e300, 1e-300, 3.141592653589793}

// Float draws a float64 from bit patterns and special values; never NaN.
func Float() *rapid.Generator[float64] {
	return rapid.Custom(func(t *rapid.T) float64 {
		switch rapid.IntRange(0, 3).Draw(t, "fkind") {
		case 0:
			return rapid.SampledFrom(specialFloats).Draw(t, "fspecial")
		case 1:
			return float64(rapid.IntRange(-1000, 1000).Draw(t, "fint"))
		default:
			f := math.Float64frombits(rapid.Uint64().Draw(t, "fbits"))
			if math.IsNaN(f) {
				return 42
			}
			return f
		}
	})
}

// Data draws the binary field.
func Data() *rapid.Generator[[]byte] {
	return rapid.OneOf(rapid.Just([]byte(nil)), rapid.Just([]byte(nil)), rapid.SliceOfN(rapid.Byte(), 0, 24))
}

// Tombstone draws a tombstone count.
func Tombstone() *rapid.Generator[int] {
	return rapid.OneOf(rapid.Just(0), rapid.IntRange(0, 3), rapid.SampledFrom([]int{7, 1000, math.MaxInt32, -1}))
}

// TimeNs draws a non-zero-time timestamp (ns since the epoch): dense window
// around 2023, neighbours, pre-1970, and near the ends of the int64 range.
func TimeNs() *rapid.Generator[int64] {
	const base = int64(1700000000) * 1e9
	return rapid.Custom(func(t *rapid.T) int64 {
		switch rapid.IntRange(0, 9).Draw(t, "tkind") {
		case 0:
			return -int64(rapid.Int64Range(1, 4e18).Draw(t, "tneg"))
		case 1:
			return math.MaxInt64 - rapid.Int64Range(0, 1000).Draw(t, "tmax")
		case 2:
			return math.MinInt64 + rapid.Int64Range(0, 1000).Draw(t, "tmin")
		case 3:
			return rapid.Int64Range(1, 1000).Draw(t, "tsmall")
		default:
			return base + rapid.Int64Range(0, 200).Draw(t, "tdense")
		}
	})
}

// DistinctTimes draws n distinct timestamps.
func DistinctTimes(t *rapid.T, n int, label string) []int64 {
	seen := map[int64]bool{}
	out := make([]int64, 0, n)
	for len(out) < n {
		v := TimeNs().Draw(t, label)
		for seen[v] || IsZeroTime(v) {
			v++
			if v == math.MaxInt64 {
				v = 1
			}
		}
		seen[v] = true
		out = append(out, v)
	}
	return out
}

// IsZeroTime: the nanosecond value whose time.Time is the zero time does not
// exist inside int64 ns, but keep the guard explicit.
func IsZeroTime(ns int64) bool { return time.Unix(0, ns).IsZero() }

// Origin draws an origin.
func Origin(ids []string) *rapid.Generator[string] {
	return rapid.OneOf(rapid.Just(""), rapid.SampledFrom(append([]string{"user-x"}, ids...)), rapid.StringN(0, 6, 12))
}

// PointFields draws everything except identity and time.
func PointFields(t *rapid.T, p *data.Point, ids []string) {
	p.Value = Float().Draw(t, "value")
	p.Text = Text().Draw(t, "text")
	p.Data = Data().Draw(t, "data")
	p.Tombstone = Tombstone().Draw(t, "tomb")
	p.Origin = Origin(ids).Draw(t, "origin")
}
