// Package model holds the reference models the oracles compare against:
// newest-wins point maps, the node graph with reachability, and the Merkle
// hash recomputed from read results by an independent implementation of the
// documented definition (docs/ref/sync.md).
package model

import (
	"encoding/binary"
	"fmt"
	"hash/crc32"
	"math"
	"sort"

	"verif/internal/fix"
)

// ---------------------------------------------------------------------------
// hash

// CRC is the documented point checksum: IEEE CRC-32 over
// LE64(unix ns) | type | key | text | LE64(float64 bits). Node-type points
// are not part of the content (they are not stored) and count as 0.
func CRC(p fix.P) uint32 {
	if p.Type == "nodeType" {
		return 0
	}
	var b []byte
	var d [8]byte
	binary.LittleEndian.PutUint64(d[:], uint64(p.TimeNs))
	b = append(b, d[:]...)
	b = append(b, p.Type...)
	b = append(b, p.Key...)
	b = append(b, p.Text...)
	binary.LittleEndian.PutUint64(d[:], p.ValueBits)
	b = append(b, d[:]...)
	return crc32.ChecksumIEEE(b)
}

// Hashes recomputes the hash of every edge of a dump from content only:
// XOR of node point CRCs, edge point CRCs and the recomputed hashes of all
// child edges (deleted ones included). Returns key -> hash.
func Hashes(d []fix.E) (map[string]uint32, error) {
	byParent := map[string][]fix.E{}
	for _, e := range d {
		byParent[e.Parent] = append(byParent[e.Parent], e)
	}
	memo := map[string]uint32{}
	onPath := map[string]bool{}
	var h func(e fix.E) (uint32, error)
	h = func(e fix.E) (uint32, error) {
		if v, ok := memo[e.Key()]; ok {
			return v, nil
		}
		if onPath[e.ID] {
			return 0, fmt.Errorf("cycle through %s", e.ID)
		}
		onPath[e.ID] = true
		defer delete(onPath, e.ID)
		var r uint32
		for _, p := range e.Points {
			r ^= CRC(p)
		}
		for _, p := range e.EdgePoints {
			r ^= CRC(p)
		}
		for _, c := range byParent[e.ID] {
			ch, err := h(c)
			if err != nil {
				return 0, err
			}
			r ^= ch
		}
		memo[e.Key()] = r
		return r, nil
	}
	for _, e := range d {
		if _, err := h(e); err != nil {
			return nil, err
		}
	}
	return memo, nil
}

// CheckHashes compares stored with recomputed hashes; returns a description
// of the first mismatches ("" if none).
func CheckHashes(d []fix.E) string {
	hs, err := Hashes(d)
	if err != nil {
		return err.Error()
	}
	msg := ""
	for _, e := range d {
		if e.Hash != hs[e.Key()] {
			msg += fmt.Sprintf("edge %s: stored hash %08x, Merkle hash of content %08x\n", e.Key(), e.Hash, hs[e.Key()])
		}
	}
	return msg
}

// ---------------------------------------------------------------------------
// newest-wins point store

// Ident is a point identity: type and key, key "" meaning "0".
type Ident struct{ Type, Key string }

func IdentOf(typ, key string) Ident {
	if key == "" {
		key = "0"
	}
	return Ident{typ, key}
}

// PointSet is the newest point per identity.
type PointSet map[Ident]fix.P

// Apply delivers one point; returns true if it changed the set.
func (s PointSet) Apply(p fix.P) bool {
	id := IdentOf(p.Type, p.Key)
	p.Key = id.Key
	old, ok := s[id]
	if ok && old.TimeNs > p.TimeNs {
		return false
	}
	if ok && old.TimeNs == p.TimeNs {
		// re-delivery of the identical point (timestamps are distinct per identity)
		return false
	}
	s[id] = p
	return true
}

// Sorted returns the points in canonical order.
func (s PointSet) Sorted() []fix.P {
	out := make([]fix.P, 0, len(s))
	for _, p := range s {
		out = append(out, p)
	}
	sort.Slice(out, func(i, j int) bool {
		if out[i].Type != out[j].Type {
			return out[i].Type < out[j].Type
		}
		return out[i].Key < out[j].Key
	})
	return out
}

// SamePoint compares what a read returned with the model's winner.
// Values compare with == (so +0 and -0 are equal) unless bitwise is set.
func SamePoint(got, want fix.P, bitwise bool) bool {
	gk, wk := got.Key, want.Key
	if gk == "" {
		gk = "0"
	}
	if wk == "" {
		wk = "0"
	}
	if got.Type != want.Type || gk != wk || got.TimeNs != want.TimeNs || got.Text != want.Text ||
		got.Data != want.Data || got.Tombstone != want.Tombstone || got.Origin != want.Origin {
		return false
	}
	if bitwise {
		return got.ValueBits == want.ValueBits
	}
	return got.Value == want.Value || (math.IsNaN(got.Value) && math.IsNaN(want.Value))
}

// DiffPoints describes the difference between read points and the model ("" if equal).
func DiffPoints(what string, got []fix.P, want PointSet, bitwise bool) string {
	msg := ""
	seen := map[Ident]int{}
	for _, g := range got {
		id := IdentOf(g.Type, g.Key)
		seen[id]++
		w, ok := want[id]
		if !ok {
			msg += fmt.Sprintf("%s: read returns %v, which the model does not hold\n", what, g)
			continue
		}
		if !SamePoint(g, w, bitwise) {
			msg += fmt.Sprintf("%s: identity %v: read returns %v, newest delivered is %v\n", what, id, g, w)
		}
	}
	for id, n := range seen {
		if n > 1 {
			msg += fmt.Sprintf("%s: %d points returned for identity %v\n", what, n, id)
		}
	}
	for id, w := range want {
		if seen[id] == 0 {
			msg += fmt.Sprintf("%s: identity %v missing from read, newest delivered is %v\n", what, id, w)
		}
	}
	return msg
}

// ---------------------------------------------------------------------------
// graph

// Edge is one placement of a node under a parent.
type Edge struct {
	Parent, ID, Type string
	Tomb             bool // tombstone edge point value is 1 (odd)
	Points           PointSet
}

// Graph is the model of nodes and edges. The root's own edge has parent "root".
type Graph struct {
	Root  string
	Edges map[string]*Edge    // key parent>id
	Nodes map[string]PointSet // node points by node id (exist independent of edges)
	Order []string            // edge keys in creation order (determinism)
}

func NewGraph(root string) *Graph {
	g := &Graph{Root: root, Edges: map[string]*Edge{}, Nodes: map[string]PointSet{}}
	return g
}

func Key(parent, id string) string { return parent + ">" + id }

func (g *Graph) Edge(parent, id string) *Edge { return g.Edges[Key(parent, id)] }

func (g *Graph) AddEdge(parent, id, typ string) *Edge {
	e := &Edge{Parent: parent, ID: id, Type: typ, Points: PointSet{}}
	g.Edges[Key(parent, id)] = e
	g.Order = append(g.Order, Key(parent, id))
	return e
}

func (g *Graph) NodePoints(id string) PointSet {
	s, ok := g.Nodes[id]
	if !ok {
		s = PointSet{}
		g.Nodes[id] = s
	}
	return s
}

// Parents returns the parents of id (through live edges only unless all).
func (g *Graph) Parents(id string, all bool) []string {
	var out []string
	for _, k := range g.Order {
		e := g.Edges[k]
		if e.ID == id && (all || !e.Tomb) {
			out = append(out, e.Parent)
		}
	}
	return out
}

// Children returns child ids.
func (g *Graph) Children(id string, all bool) []string {
	var out []string
	for _, k := range g.Order {
		e := g.Edges[k]
		if e.Parent == id && (all || !e.Tomb) {
			out = append(out, e.ID)
		}
	}
	return out
}

// Ancestors returns every node reachable upward from id (id excluded),
// through live edges only unless all; the pseudo parent "root" is included
// when the instance root is reached.
func (g *Graph) Ancestors(id string, all bool) map[string]bool {
	out := map[string]bool{}
	var up func(n string)
	up = func(n string) {
		for _, p := range g.Parents(n, all) {
			if !out[p] {
				out[p] = true
				up(p)
			}
		}
	}
	up(id)
	return out
}

// WouldCycle tells whether adding an edge parent->id would make id an
// ancestor of itself (through any edges, deleted included).
func (g *Graph) WouldCycle(parent, id string) bool {
	if parent == id {
		return true
	}
	return g.Ancestors(parent, true)[id]
}

// LiveFromRoot tells whether id is connected to the root through live edges.
func (g *Graph) LiveFromRoot(id string) bool {
	if id == g.Root {
		return true
	}
	return g.Ancestors(id, false)[g.Root]
}

// NodeIDs lists node ids that have at least one edge, in creation order.
func (g *Graph) NodeIDs() []string {
	seen := map[string]bool{}
	var out []string
	for _, k := range g.Order {
		e := g.Edges[k]
		if !seen[e.ID] {
			seen[e.ID] = true
			out = append(out, e.ID)
		}
	}
	return out
}

// EdgeKeys lists the placements as (parent,id) pairs.
func (g *Graph) EdgeKeys() [][2]string {
	var out [][2]string
	for _, k := range g.Order {
		e := g.Edges[k]
		out = append(out, [2]string{e.Parent, e.ID})
	}
	return out
}
