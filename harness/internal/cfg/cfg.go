// Package cfg defines the family of client configuration types used by C10
// and C11 (every supported field kind) together with their rapid generators
// and the equivalence used to compare decoded values.
package cfg

import (
	"fmt"
	"math"
	"reflect"
	"sort"
	"strings"

	"pgregory.net/rapid"
)

// Flat is a flat struct (treated like a map keyed by field name / tag).
type Flat struct {
	A int     `point:"a"`
	B string  `point:"b"`
	C float64 // key "c"
	D bool    // key "d"
	E uint16  // key "e"
	// untagged names with initialisms: the key is data.ToCamelCase of the name
	URL     string // key "url"
	IPAddr  int32  // key "ipAddr"
	MaxTemp int8   // key "maxTemp"
	// pointer fields inside a flat struct: a nil one is a tombstoned key
	Opt  *int    `point:"opt"`
	Note *string // key "note"
}

// Kid is a child node type (decode only).
type Kid struct {
	ID          string `node:"id"`
	Parent      string `node:"parent"`
	Description string `point:"description"`
	Vals        []int  `point:"vals"`
}

// Big covers every supported field kind.
type Big struct {
	ID     string `node:"id"`
	Parent string `node:"parent"`

	S   string  `point:"s"`
	B   bool    `point:"b"`
	I   int     `point:"i"`
	I8  int8    `point:"i8"`
	I16 int16   `point:"i16"`
	I32 int32   `point:"i32"`
	I64 int64   `point:"i64"`
	U   uint    `point:"u"`
	U8  uint8   `point:"u8"`
	U16 uint16  `point:"u16"`
	U32 uint32  `point:"u32"`
	U64 uint64  `point:"u64"`
	F32 float32 `point:"f32"`
	F64 float64 `point:"f64"`

	PS *string  `point:"ps"`
	PI *int     `point:"pi"`
	PF *float64 `point:"pf"`
	PB *bool    `point:"pb"`

	PFlat *Flat `point:"pflat"`
	VFlat Flat  `point:"vflat"`

	SS   []string  `point:"ss"`
	SI   []int     `point:"si"`
	SF   []float64 `point:"sf"`
	SB   []bool    `point:"sb"`
	SU8  []uint8   `point:"su8"`
	SI32 []int32   `point:"si32"`
	SF32 []float32 `point:"sf32"`
	SU64 []uint64  `point:"su64"`

	A4 [4]int    `point:"a4"`
	A7 [7]bool   `point:"a7"`
	AS [3]string `point:"as"`
	AU [2]uint32 `point:"au"`

	MS map[string]string  `point:"ms"`
	MI map[string]int     `point:"mi"`
	MF map[string]float64 `point:"mf"`
	MB map[string]bool    `point:"mb"`

	Role  string  `edgepoint:"role"`
	ETomb bool    `edgepoint:"tombstone"`
	EI    int     `edgepoint:"ei"`
	EU8   uint8   `edgepoint:"eu8"`
	ES    []int32 `edgepoint:"es"`
	EP    *int    `edgepoint:"ep"`

	Kids []Kid `child:"kid"`
}

const maxSafe = 1<<53 - 1

func intIn(lo, hi int64) *rapid.Generator[int64] {
	return rapid.Custom(func(t *rapid.T) int64 {
		switch rapid.IntRange(0, 3).Draw(t, "ik") {
		case 0:
			return rapid.SampledFrom([]int64{lo, hi, 0, 1, -1, lo + 1, hi - 1}).Filter(func(v int64) bool { return v >= lo && v <= hi }).Draw(t, "iedge")
		case 1:
			return rapid.Int64Range(-3, 3).Filter(func(v int64) bool { return v >= lo && v <= hi }).Draw(t, "ismall")
		default:
			return rapid.Int64Range(lo, hi).Draw(t, "i")
		}
	})
}

var floats = []float64{0, math.Copysign(0, -1), 1, -1, 0.5, math.MaxFloat64, -math.MaxFloat64, math.SmallestNonzeroFloat64, math.Inf(1), math.Inf(-1), 1e300, 123456.789}

// Float64 draws any float64 except NaN.
func Float64() *rapid.Generator[float64] {
	return rapid.Custom(func(t *rapid.T) float64 {
		if rapid.Bool().Draw(t, "fs") {
			return rapid.SampledFrom(floats).Draw(t, "fv")
		}
		f := math.Float64frombits(rapid.Uint64().Draw(t, "fbits"))
		if math.IsNaN(f) {
			return 7
		}
		return f
	})
}

// Float32 draws any float32 except NaN.
func Float32() *rapid.Generator[float32] {
	return rapid.Custom(func(t *rapid.T) float32 {
		f := math.Float32frombits(rapid.Uint32().Draw(t, "f32bits"))
		if f != f {
			return 7
		}
		return f
	})
}

// Str draws a string (arbitrary, short).
func Str() *rapid.Generator[string] {
	return rapid.OneOf(rapid.SampledFrom([]string{"", "x", "0", "hello", "a\x00b", "é", " "}), rapid.StringN(0, 8, 24))
}

// MapKey draws a non-empty map key (key "" is key "0" by the identity rule).
func MapKey() *rapid.Generator[string] {
	return rapid.OneOf(rapid.SampledFrom([]string{"a", "b", "c", "0", "1", "-1", "key", "é", "a.b"}), rapid.StringN(1, 5, 12).Filter(func(s string) bool { return s != "" }))
}

// Len draws a slice length 0-12.
func Len() *rapid.Generator[int] {
	return rapid.Custom(func(t *rapid.T) int {
		if rapid.IntRange(0, 5).Draw(t, "lzero") == 0 {
			return 0
		}
		return rapid.IntRange(0, 12).Draw(t, "l")
	})
}

// bigLen draws a long slice length up to the documented maximum.
func bigLen(t *rapid.T) int {
	if rapid.Bool().Draw(t, "lmax") {
		return 1000
	}
	return rapid.IntRange(13, 1000).Draw(t, "lbig")
}

// bigSlice names the one slice field of the current value that may be long
// ("" for most values: DiffPoints is quadratic in the slice length).
var bigSlice string

func sliceOf[T any](t *rapid.T, g *rapid.Generator[T], label string) []T {
	n := Len().Draw(t, label+"Len")
	if label == bigSlice {
		n = bigLen(t)
	}
	if n == 0 {
		if rapid.Bool().Draw(t, label+"Nil") {
			return nil
		}
		return []T{}
	}
	out := make([]T, n)
	if n > 20 {
		// big slices: a repeating pattern plus a few drawn elements (keeps cases small)
		base := g.Draw(t, label+"Base")
		for i := range out {
			out[i] = base
		}
		for k := 0; k < 4; k++ {
			out[rapid.IntRange(0, n-1).Draw(t, label+"Pos")] = g.Draw(t, label+"El")
		}
		out[n-1] = g.Draw(t, label+"Last")
		return out
	}
	for i := range out {
		out[i] = g.Draw(t, label)
	}
	return out
}

func mapOf[T any](t *rapid.T, g *rapid.Generator[T], label string) map[string]T {
	n := rapid.IntRange(0, 5).Draw(t, label+"Len")
	if n == 0 {
		if rapid.Bool().Draw(t, label+"Nil") {
			return nil
		}
		return map[string]T{}
	}
	out := map[string]T{}
	for i := 0; i < n; i++ {
		out[MapKey().Draw(t, label+"Key")] = g.Draw(t, label)
	}
	return out
}

func ptrOf[T any](t *rapid.T, g *rapid.Generator[T], label string) *T {
	if rapid.IntRange(0, 2).Draw(t, label+"Nil") == 0 {
		return nil
	}
	v := g.Draw(t, label)
	return &v
}

func toInt[T ~int | ~int8 | ~int16 | ~int32 | ~int64 | ~uint | ~uint8 | ~uint16 | ~uint32 | ~uint64](g *rapid.Generator[int64]) *rapid.Generator[T] {
	return rapid.Map(g, func(v int64) T { return T(v) })
}

// GenFlat draws a Flat.
func GenFlat(t *rapid.T, label string) Flat {
	switch rapid.IntRange(0, 7).Draw(t, label+"Zeroish") {
	case 0:
		return Flat{} // a pointer to the all-zero struct is not a nil pointer
	case 1:
		return Flat{B: Str().Draw(t, label+"OnlyB")}
	case 2:
		return Flat{D: true}
	case 4:
		z := 0
		return Flat{Opt: &z} // a pointer to a zero value is not a nil pointer
	case 3:
		return Flat{URL: Str().Draw(t, label+"OnlyURL"), IPAddr: int32(rapid.IntRange(0, 1).Draw(t, label+"OnlyIP"))}
	}
	return Flat{
		A: int(intIn(-maxSafe, maxSafe).Draw(t, label+"A")),
		B: Str().Draw(t, label+"B"),
		C: Float64().Draw(t, label+"C"),
		D: rapid.Bool().Draw(t, label+"D"),
		E: uint16(intIn(0, math.MaxUint16).Draw(t, label+"E")),

		URL:     Str().Draw(t, label+"URL"),
		IPAddr:  int32(intIn(math.MinInt32, math.MaxInt32).Draw(t, label+"IPAddr")),
		MaxTemp: int8(intIn(math.MinInt8, math.MaxInt8).Draw(t, label+"MaxTemp")),

		Opt:  optInt(t, label+"Opt"),
		Note: optStr(t, label+"Note"),
	}
}

func optInt(t *rapid.T, label string) *int {
	if rapid.IntRange(0, 2).Draw(t, label+"Nil") == 0 {
		return nil
	}
	v := int(intIn(-maxSafe, maxSafe).Draw(t, label))
	return &v
}

func optStr(t *rapid.T, label string) *string {
	if rapid.IntRange(0, 2).Draw(t, label+"Nil") == 0 {
		return nil
	}
	v := Str().Draw(t, label)
	return &v
}

// GenKid draws a child.
var kidIDs = []string{"kidm", "kidc", "kidx", "kida", "kid9", "kid10", "Kidb", "9d1f"}

func GenKid(t *rapid.T, parent string, i int) Kid {
	return Kid{
		ID:          kidIDs[i%len(kidIDs)] + strings.Repeat("'", i/len(kidIDs)), // not in ascending order: a child list keeps the order it is given in
		Parent:      parent,
		Description: Str().Draw(t, "kidDesc"),
		Vals:        sliceOf(t, toInt[int](intIn(-maxSafe, maxSafe)), "kidVals"),
	}
}

// GenBig draws a Big. Edge fields, id and parent come from the arguments so
// that pairs for DiffPoints can share them.
func GenBig(t *rapid.T) Big {
	var b Big
	b.ID = rapid.SampledFrom([]string{"id1", "n-7", "x"}).Draw(t, "id")
	b.Parent = rapid.SampledFrom([]string{"", "p1", "root"}).Draw(t, "parent")
	GenPointFields(t, &b)
	b.Role = Str().Draw(t, "role")
	b.ETomb = rapid.Bool().Draw(t, "etomb")
	b.EI = int(intIn(-maxSafe, maxSafe).Draw(t, "ei"))
	b.EU8 = uint8(intIn(0, 255).Draw(t, "eu8"))
	b.ES = sliceOf(t, toInt[int32](intIn(math.MinInt32, math.MaxInt32)), "es")
	b.EP = ptrOf(t, toInt[int](intIn(-maxSafe, maxSafe)), "ep")
	return b
}

// GenPointFields draws all node-point fields of b.
func GenPointFields(t *rapid.T, b *Big) {
	bigSlice = ""
	if k := rapid.IntRange(0, 159).Draw(t, "bigSlice"); k < 8 {
		bigSlice = []string{"ss", "si", "sf", "sb", "su8", "si32", "sf32", "su64"}[k]
	}
	defer func() { bigSlice = "" }()
	b.S = Str().Draw(t, "s")
	b.B = rapid.Bool().Draw(t, "b")
	b.I = int(intIn(-maxSafe, maxSafe).Draw(t, "i"))
	b.I8 = int8(intIn(math.MinInt8, math.MaxInt8).Draw(t, "i8"))
	b.I16 = int16(intIn(math.MinInt16, math.MaxInt16).Draw(t, "i16"))
	b.I32 = int32(intIn(math.MinInt32, math.MaxInt32).Draw(t, "i32"))
	b.I64 = intIn(-maxSafe, maxSafe).Draw(t, "i64")
	b.U = uint(intIn(0, maxSafe).Draw(t, "u"))
	b.U8 = uint8(intIn(0, math.MaxUint8).Draw(t, "u8"))
	b.U16 = uint16(intIn(0, math.MaxUint16).Draw(t, "u16"))
	b.U32 = uint32(intIn(0, math.MaxUint32).Draw(t, "u32"))
	b.U64 = uint64(intIn(0, maxSafe).Draw(t, "u64"))
	b.F32 = Float32().Draw(t, "f32")
	b.F64 = Float64().Draw(t, "f64")
	b.PS = ptrOf(t, Str(), "ps")
	b.PI = ptrOf(t, toInt[int](intIn(-maxSafe, maxSafe)), "pi")
	b.PF = ptrOf(t, Float64(), "pf")
	b.PB = ptrOf(t, rapid.Bool(), "pb")
	if rapid.IntRange(0, 2).Draw(t, "pflatNil") != 0 {
		f := GenFlat(t, "pflat")
		b.PFlat = &f
	}
	b.VFlat = GenFlat(t, "vflat")
	b.SS = sliceOf(t, Str(), "ss")
	b.SI = sliceOf(t, toInt[int](intIn(-maxSafe, maxSafe)), "si")
	b.SF = sliceOf(t, Float64(), "sf")
	b.SB = sliceOf(t, rapid.Bool(), "sb")
	b.SU8 = sliceOf(t, toInt[uint8](intIn(0, 255)), "su8")
	b.SI32 = sliceOf(t, toInt[int32](intIn(math.MinInt32, math.MaxInt32)), "si32")
	b.SF32 = sliceOf(t, Float32(), "sf32")
	b.SU64 = sliceOf(t, toInt[uint64](intIn(0, maxSafe)), "su64")
	for i := range b.A4 {
		b.A4[i] = int(intIn(-maxSafe, maxSafe).Draw(t, "a4"))
	}
	for i := range b.A7 {
		b.A7[i] = rapid.Bool().Draw(t, "a7")
	}
	for i := range b.AS {
		b.AS[i] = Str().Draw(t, "as")
	}
	for i := range b.AU {
		b.AU[i] = uint32(intIn(0, math.MaxUint32).Draw(t, "au"))
	}
	b.MS = mapOf(t, Str(), "ms")
	b.MI = mapOf(t, toInt[int](intIn(-maxSafe, maxSafe)), "mi")
	b.MF = mapOf(t, Float64(), "mf")
	b.MB = mapOf(t, rapid.Bool(), "mb")
}

// Mutate draws a neighbour of a: a few fields redrawn or resized, the rest
// shared (pairs that agree on id, parent and edge fields).
func Mutate(t *rapid.T, a Big) Big {
	var fresh Big
	GenPointFields(t, &fresh)
	b := Clone(a)
	n := rapid.IntRange(1, 6).Draw(t, "nmut")
	bv := reflect.ValueOf(&b).Elem()
	fv := reflect.ValueOf(&fresh).Elem()
	var idx []int
	for i := 0; i < bv.NumField(); i++ {
		if bv.Type().Field(i).Tag.Get("point") != "" {
			idx = append(idx, i)
		}
	}
	for k := 0; k < n; k++ {
		i := rapid.SampledFrom(idx).Draw(t, "mutField")
		f := bv.Field(i)
		switch f.Kind() {
		case reflect.Slice:
			switch rapid.IntRange(0, 4).Draw(t, "sliceMut") {
			case 0: // shrink
				if f.Len() > 0 {
					f.Set(f.Slice(0, rapid.IntRange(0, f.Len()-1).Draw(t, "shrinkTo")))
				}
			case 1: // grow with fresh elements
				f.Set(reflect.AppendSlice(f, fv.Field(i)))
				if f.Len() > 1000 {
					f.Set(f.Slice(0, 1000))
				}
			case 2: // change one element
				if f.Len() > 0 && fv.Field(i).Len() > 0 {
					f.Index(rapid.IntRange(0, f.Len()-1).Draw(t, "elPos")).Set(fv.Field(i).Index(0))
				}
			case 3: // zero one element (holes)
				if f.Len() > 0 {
					p := rapid.IntRange(0, f.Len()-1).Draw(t, "zeroPos")
					f.Index(p).Set(reflect.Zero(f.Type().Elem()))
				}
			default:
				f.Set(fv.Field(i))
			}
		case reflect.Map:
			switch rapid.IntRange(0, 3).Draw(t, "mapMut") {
			case 0: // remove an entry
				if f.Len() > 0 {
					keys := f.MapKeys()
					sortValues(keys)
					f.SetMapIndex(keys[rapid.IntRange(0, len(keys)-1).Draw(t, "rmKey")], reflect.Value{})
				}
			case 1: // add entries from fresh
				if f.IsNil() {
					f.Set(reflect.MakeMap(f.Type()))
				}
				it := fv.Field(i).MapRange()
				for it.Next() {
					f.SetMapIndex(it.Key(), it.Value())
				}
			case 2: // remove one, add others
				if f.Len() > 0 {
					keys := f.MapKeys()
					sortValues(keys)
					f.SetMapIndex(keys[0], reflect.Value{})
					it := fv.Field(i).MapRange()
					for it.Next() {
						if it.Key().String() != keys[0].String() {
							f.SetMapIndex(it.Key(), it.Value())
						}
					}
				}
			default:
				f.Set(fv.Field(i))
			}
		default:
			f.Set(fv.Field(i))
		}
	}
	return b
}

func sortValues(vs []reflect.Value) {
	for i := 1; i < len(vs); i++ {
		for j := i; j > 0 && vs[j].String() < vs[j-1].String(); j-- {
			vs[j], vs[j-1] = vs[j-1], vs[j]
		}
	}
}

// Clone deep-copies a Big (slices, maps, pointers).
func Clone(a Big) Big {
	return cloneValue(reflect.ValueOf(a)).Interface().(Big)
}

func cloneValue(v reflect.Value) reflect.Value {
	switch v.Kind() {
	case reflect.Pointer:
		if v.IsNil() {
			return reflect.Zero(v.Type())
		}
		n := reflect.New(v.Type().Elem())
		n.Elem().Set(cloneValue(v.Elem()))
		return n
	case reflect.Slice:
		if v.IsNil() {
			return reflect.Zero(v.Type())
		}
		n := reflect.MakeSlice(v.Type(), v.Len(), v.Len())
		for i := 0; i < v.Len(); i++ {
			n.Index(i).Set(cloneValue(v.Index(i)))
		}
		return n
	case reflect.Map:
		if v.IsNil() {
			return reflect.Zero(v.Type())
		}
		n := reflect.MakeMapWithSize(v.Type(), v.Len())
		it := v.MapRange()
		for it.Next() {
			n.SetMapIndex(it.Key(), cloneValue(it.Value()))
		}
		return n
	case reflect.Struct:
		n := reflect.New(v.Type()).Elem()
		for i := 0; i < v.NumField(); i++ {
			n.Field(i).Set(cloneValue(v.Field(i)))
		}
		return n
	case reflect.Array:
		n := reflect.New(v.Type()).Elem()
		for i := 0; i < v.Len(); i++ {
			n.Index(i).Set(cloneValue(v.Index(i)))
		}
		return n
	default:
		return v
	}
}

// Equiv is reflect.DeepEqual modulo nil-versus-empty slices and maps (the two
// are indistinguishable through points).
func Equiv(a, b any) bool {
	return reflect.DeepEqual(normalize(reflect.ValueOf(a)).Interface(), normalize(reflect.ValueOf(b)).Interface())
}

func normalize(v reflect.Value) reflect.Value {
	switch v.Kind() {
	case reflect.Slice:
		if v.Len() == 0 {
			return reflect.Zero(v.Type())
		}
		n := reflect.MakeSlice(v.Type(), v.Len(), v.Len())
		for i := 0; i < v.Len(); i++ {
			n.Index(i).Set(normalize(v.Index(i)))
		}
		return n
	case reflect.Map:
		if v.Len() == 0 {
			return reflect.Zero(v.Type())
		}
		n := reflect.MakeMapWithSize(v.Type(), v.Len())
		it := v.MapRange()
		for it.Next() {
			n.SetMapIndex(it.Key(), normalize(it.Value()))
		}
		return n
	case reflect.Pointer:
		if v.IsNil() {
			return v
		}
		n := reflect.New(v.Type().Elem())
		n.Elem().Set(normalize(v.Elem()))
		return n
	case reflect.Struct:
		n := reflect.New(v.Type()).Elem()
		for i := 0; i < v.NumField(); i++ {
			n.Field(i).Set(normalize(v.Field(i)))
		}
		return n
	case reflect.Array:
		n := reflect.New(v.Type()).Elem()
		for i := 0; i < v.Len(); i++ {
			n.Index(i).Set(normalize(v.Index(i)))
		}
		return n
	default:
		return v
	}
}

// Render prints a value with every pointer followed (no addresses), for digests.
func Render(v any) string {
	var b strings.Builder
	render(&b, reflect.ValueOf(v))
	return b.String()
}

func render(b *strings.Builder, v reflect.Value) {
	switch v.Kind() {
	case reflect.Pointer:
		if v.IsNil() {
			b.WriteString("nil")
			return
		}
		b.WriteString("&")
		render(b, v.Elem())
	case reflect.Struct:
		b.WriteString("{")
		for i := 0; i < v.NumField(); i++ {
			render(b, v.Field(i))
			b.WriteString(" ")
		}
		b.WriteString("}")
	case reflect.Slice, reflect.Array:
		b.WriteString("[")
		for i := 0; i < v.Len(); i++ {
			render(b, v.Index(i))
			b.WriteString(" ")
		}
		b.WriteString("]")
	case reflect.Map:
		keys := v.MapKeys()
		sort.Slice(keys, func(i, j int) bool { return keys[i].String() < keys[j].String() })
		b.WriteString("map[")
		for _, k := range keys {
			fmt.Fprintf(b, "%q:", k.String())
			render(b, v.MapIndex(k))
			b.WriteString(" ")
		}
		b.WriteString("]")
	default:
		fmt.Fprintf(b, "%v", v.Interface())
	}
}

// EquivNaN is Equiv with "NaN equals NaN" (two decodings of the same points).
func EquivNaN(a, b any) bool {
	return eqNaN(normalize(reflect.ValueOf(a)), normalize(reflect.ValueOf(b)))
}

func eqNaN(a, b reflect.Value) bool {
	if a.Kind() != b.Kind() {
		return false
	}
	switch a.Kind() {
	case reflect.Float32, reflect.Float64:
		x, y := a.Float(), b.Float()
		return x == y && math.Signbit(x) == math.Signbit(y) || math.IsNaN(x) && math.IsNaN(y)
	case reflect.Slice, reflect.Array:
		if a.Kind() == reflect.Slice && a.IsNil() != b.IsNil() || a.Len() != b.Len() {
			return false
		}
		for i := 0; i < a.Len(); i++ {
			if !eqNaN(a.Index(i), b.Index(i)) {
				return false
			}
		}
		return true
	case reflect.Map:
		if a.IsNil() != b.IsNil() || a.Len() != b.Len() {
			return false
		}
		it := a.MapRange()
		for it.Next() {
			bv := b.MapIndex(it.Key())
			if !bv.IsValid() || !eqNaN(it.Value(), bv) {
				return false
			}
		}
		return true
	case reflect.Pointer:
		if a.IsNil() || b.IsNil() {
			return a.IsNil() == b.IsNil()
		}
		return eqNaN(a.Elem(), b.Elem())
	case reflect.Struct:
		for i := 0; i < a.NumField(); i++ {
			if !eqNaN(a.Field(i), b.Field(i)) {
				return false
			}
		}
		return true
	default:
		return reflect.DeepEqual(a.Interface(), b.Interface())
	}
}

// FirstDiff names the first field in which two Bigs differ under Equiv.
func FirstDiff(a, b Big) string {
	av, bv := reflect.ValueOf(a), reflect.ValueOf(b)
	for i := 0; i < av.NumField(); i++ {
		if !Equiv(av.Field(i).Interface(), bv.Field(i).Interface()) {
			return av.Type().Field(i).Name
		}
	}
	return ""
}

// SpareCapacity returns a deep copy of a in which every slice has `extra`
// spare elements of capacity filled with stale (non-zero) values, as a slice
// has after Decode trimmed it.
func SpareCapacity(a Big, extra int, stale Big) Big {
	b := Clone(a)
	bv := reflect.ValueOf(&b).Elem()
	sv := reflect.ValueOf(stale)
	for i := 0; i < bv.NumField(); i++ {
		f := bv.Field(i)
		if f.Kind() != reflect.Slice || f.Type().Elem().Kind() == reflect.Struct {
			continue
		}
		n := f.Len()
		nv := reflect.MakeSlice(f.Type(), n+extra, n+extra)
		reflect.Copy(nv, f)
		// stale content in the spare part
		src := sv.Field(i)
		for k := 0; k < extra; k++ {
			if src.Len() > 0 {
				nv.Index(n + k).Set(src.Index(k % src.Len()))
			}
		}
		f.Set(nv.Slice(0, n))
	}
	return b
}

// CloneCap is Clone preserving slice capacities and the content of the spare
// capacity.
func CloneCap(a Big) Big {
	b := Clone(a)
	av := reflect.ValueOf(a)
	bv := reflect.ValueOf(&b).Elem()
	for i := 0; i < av.NumField(); i++ {
		f := av.Field(i)
		if f.Kind() != reflect.Slice || f.IsNil() || f.Type().Elem().Kind() == reflect.Struct {
			continue
		}
		full := f.Slice(0, f.Cap())
		nv := reflect.MakeSlice(f.Type(), f.Cap(), f.Cap())
		reflect.Copy(nv, full)
		bv.Field(i).Set(nv.Slice(0, f.Len()))
	}
	return b
}
