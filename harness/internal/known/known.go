// Package known reads /verif/KNOWN_FINDINGS.txt (read-only at run time).
package known

import (
	"bufio"
	"fmt"
	"os"
	"path/filepath"
	"strings"
	"testing"
)

// Listed reports whether a finding with the given id (e.g. "C15-F1") of the
// property is listed as `finding:` in KNOWN_FINDINGS.txt.
func Listed(property, id string) bool {
	dir := os.Getenv("VERIF_DIR")
	if dir == "" {
		dir = "/verif"
	}
	f, err := os.Open(filepath.Join(dir, "KNOWN_FINDINGS.txt"))
	if err != nil {
		return false
	}
	defer f.Close()
	sc := bufio.NewScanner(f)
	sc.Buffer(make([]byte, 1<<20), 1<<20)
	for sc.Scan() {
		l := strings.TrimSpace(sc.Text())
		if strings.HasPrefix(l, "finding:") && strings.Contains(l, "property="+property+" ") &&
			strings.Contains(l, "id="+id+" ") {
			return true
		}
	}
	return false
}

// Report handles the outcome of a pinned known-finding replay. failed tells
// whether the pinned case still violates the property. A listed finding that
// still fails prints the KNOWN-FINDING line and passes; an unlisted failure is
// a test failure (hence a VIOLATION); a case that no longer fails is silent.
func Report(t *testing.T, property, id, what string, failed bool, detail string) {
	t.Helper()
	if !failed {
		t.Logf("pinned case %s no longer fails", id)
		return
	}
	if Listed(property, id) {
		fmt.Printf("KNOWN-FINDING: property=%s id=%s %s\n", property, id, what)
		return
	}
	t.Fatalf("pinned case %s fails and is not listed in KNOWN_FINDINGS.txt: %s\n%s", id, what, detail)
}
