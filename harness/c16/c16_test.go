// Package c16 decides property C16: COBS framing delivers each frame intact
// for any read chunking, and recovers after the next delimiter from damage.
package c16

import (
	"bytes"
	"errors"
	"fmt"
	"io"
	"testing"

	"github.com/simpleiot/simpleiot/client"
	"pgregory.net/rapid"

	"verif/internal/fix"
	"verif/internal/stats"
)

func TestMain(m *testing.M) { fix.Quiet(); stats.Main(m) }

// scripted is an io.ReadWriteCloser whose reads return exactly the scripted
// chunks (never more than the caller's buffer holds; the rest of a chunk is
// returned by the next read).
type scripted struct {
	chunks  [][]byte
	written bytes.Buffer
	// emptyEvery > 0: before every emptyEvery-th chunk the device first returns
	// (0, nil) once, which io.Reader allows (a read that timed out empty)
	emptyEvery int
	nread      int
	gaveEmpty  bool
}

func (s *scripted) Read(p []byte) (int, error) {
	for len(s.chunks) > 0 && len(s.chunks[0]) == 0 {
		s.chunks = s.chunks[1:]
	}
	if len(s.chunks) == 0 {
		return 0, io.EOF
	}
	if len(p) == 0 {
		return 0, nil
	}
	if s.emptyEvery > 0 && s.nread%s.emptyEvery == 0 && !s.gaveEmpty {
		s.gaveEmpty = true
		return 0, nil
	}
	s.gaveEmpty = false
	s.nread++
	n := copy(p, s.chunks[0])
	s.chunks[0] = s.chunks[0][n:]
	return n, nil
}
func (s *scripted) Write(p []byte) (int, error) { return s.written.Write(p) }
func (s *scripted) Close() error                { return nil }

// encodeStream is what CobsWrapper.Write produces for the frames; spans[i]
// is the [start,end) of frame i in the stream (leading zero and terminator
// included).
func encodeStream(frames [][]byte, maxLen int) ([]byte, [][2]int, error) {
	dev := &scripted{}
	cw := client.NewCobsWrapper(dev, maxLen)
	var spans [][2]int
	for _, f := range frames {
		start := dev.written.Len()
		if _, err := cw.Write(f); err != nil {
			return nil, nil, err
		}
		spans = append(spans, [2]int{start, dev.written.Len()})
	}
	return append([]byte{}, dev.written.Bytes()...), spans, nil
}

type event struct {
	frame []byte
	err   error
}

// emptyReadsEvery is set by a property for the duration of one case (cases of
// one test process run one after the other).
var emptyReadsEvery int

// readAll reads until the script is exhausted; returns the events in order.
func readAll(stream []byte, cuts []int, maxLen int) ([]event, error) {
	var chunks [][]byte
	prev := 0
	for _, c := range cuts {
		if c > prev && c < len(stream) {
			chunks = append(chunks, stream[prev:c])
			prev = c
		}
	}
	chunks = append(chunks, stream[prev:])
	dev := &scripted{chunks: chunks, emptyEvery: emptyReadsEvery}
	cw := client.NewCobsWrapper(dev, maxLen)
	buf := make([]byte, maxLen) // as client/serial.go does
	var evs []event
	for i := 0; ; i++ {
		if i > 4*len(stream)+100 {
			return evs, fmt.Errorf("Read keeps returning without reaching the end of the input (%d calls)", i)
		}
		n, err := cw.Read(buf)
		if errors.Is(err, io.EOF) {
			return evs, nil
		}
		if err != nil {
			evs = append(evs, event{err: err})
			continue
		}
		evs = append(evs, event{frame: append([]byte{}, buf[:n]...)})
		// the buffer is the caller's: what it does with it between two reads must
		// not matter to frames still to come
		for i := range buf {
			buf[i] = 0xAA
		}
	}
}

// ---------------------------------------------------------------------------
// generators

func genFrame(t *rapid.T, maxPayload int) []byte {
	var n int
	switch rapid.IntRange(0, 6).Draw(t, "lenKind") {
	case 6:
		// the largest frames the read buffer holds
		n = maxPayload - rapid.IntRange(0, 2).Draw(t, "lenBelowMax")
	case 0:
		n = rapid.SampledFrom([]int{253, 254, 255, 507, 508, 509, 510}).Draw(t, "lenEdge")
	case 1:
		n = rapid.IntRange(1, 3).Draw(t, "lenTiny")
	case 2:
		n = rapid.IntRange(1, maxPayload).Draw(t, "lenAny")
	default:
		n = rapid.IntRange(1, 24).Draw(t, "lenSmall")
	}
	if n > maxPayload {
		n = maxPayload
	}
	if n < 1 {
		n = 1
	}
	kind := rapid.IntRange(0, 3).Draw(t, "content")
	f := make([]byte, n)
	if n > 40 {
		// long frames: pattern plus a few drawn bytes (keeps the case small)
		fill := rapid.Byte().Draw(t, "fill")
		if kind == 1 && fill == 0 {
			fill = 0x55
		}
		for i := range f {
			f[i] = fill
			if kind == 2 {
				f[i] = byte(i)
			}
		}
		for k := 0; k < 6; k++ {
			f[rapid.IntRange(0, n-1).Draw(t, "pos")] = rapid.SampledFrom([]byte{0, 0, 1, 0xff, 0x7f}).Draw(t, "b")
		}
		return f
	}
	for i := range f {
		switch kind {
		case 0:
			f[i] = rapid.SampledFrom([]byte{0, 0, 0, 1, 0xff}).Draw(t, "zb")
		case 1:
			f[i] = rapid.ByteRange(1, 255).Draw(t, "nzb")
		default:
			f[i] = rapid.Byte().Draw(t, "ab")
		}
	}
	return f
}

// maxPayloadFor: largest payload n with 1 (leading zero) + n + n/254 + 1 (code)
// + 1 (terminator) <= maxLen, i.e. the encoded frame fits the read buffer.
func maxPayloadFor(maxLen int) int {
	n := maxLen - 3
	for n > 0 && 1+n+n/254+1+1 > maxLen {
		n--
	}
	return n
}

// slack: bytes of the read buffer left free beyond the encoded frame (one
// for clean streams; one more when a damage event may insert a byte).
func genFrames(t *rapid.T, maxLen, slack int) [][]byte {
	n := rapid.IntRange(1, 6).Draw(t, "nframes")
	var fs [][]byte
	for i := 0; i < n; i++ {
		fs = append(fs, genFrame(t, maxPayloadFor(maxLen-slack)))
	}
	return fs
}

// genCuts draws read boundaries: sparse, dense (down to one byte) or placed
// around delimiters / inside code blocks.
func genCuts(t *rapid.T, stream []byte) []int {
	set := map[int]bool{}
	mode := rapid.IntRange(0, 3).Draw(t, "cutMode")
	switch mode {
	case 0: // every byte
		for i := 1; i < len(stream); i++ {
			set[i] = true
		}
	case 1: // none or very few: several frames per read
		for k := rapid.IntRange(0, 2).Draw(t, "nfew"); k > 0; k-- {
			set[rapid.IntRange(0, len(stream)).Draw(t, "cut")] = true
		}
	default:
		var zeros []int
		for i, b := range stream {
			if b == 0 {
				zeros = append(zeros, i)
			}
		}
		k := rapid.IntRange(1, 12).Draw(t, "ncuts")
		for ; k > 0; k-- {
			if len(zeros) > 0 && rapid.IntRange(0, 2).Draw(t, "nearZero") > 0 {
				z := rapid.SampledFrom(zeros).Draw(t, "zero")
				set[z+rapid.IntRange(-1, 2).Draw(t, "zoff")] = true
			} else {
				set[rapid.IntRange(0, len(stream)).Draw(t, "cut")] = true
			}
		}
	}
	var cuts []int
	for i := 1; i < len(stream); i++ {
		if set[i] {
			cuts = append(cuts, i)
		}
	}
	return cuts
}

func classifyCuts(spans [][2]int, cuts []int) (inside, joint bool) {
	cutSet := map[int]bool{}
	for _, c := range cuts {
		cutSet[c] = true
	}
	for _, s := range spans {
		for c := s[0] + 2; c < s[1]-1; c++ {
			if cutSet[c] {
				inside = true
			}
		}
	}
	// a read holding the end of one frame and the start of the next
	for i := 0; i+1 < len(spans); i++ {
		b := spans[i][1] // boundary
		if !cutSet[b] && !cutSet[b+1] && !cutSet[b-1] {
			joint = true
		}
	}
	return
}

func maxLens() *rapid.Generator[int] {
	return rapid.SampledFrom([]int{64, 300, 600, 1024, 1024})
}

func short(b []byte) string {
	if len(b) > 160 {
		return fmt.Sprintf("%x...%x (%d bytes)", b[:120], b[len(b)-24:], len(b))
	}
	return fmt.Sprintf("%x", b)
}

func shortInts(c []int) string {
	if len(c) > 40 {
		return fmt.Sprintf("%v ... %v (%d cuts)", c[:20], c[len(c)-10:], len(c))
	}
	return fmt.Sprint(c)
}

func hexs(fs [][]byte) []string {
	var out []string
	for _, f := range fs {
		if len(f) > 24 {
			out = append(out, fmt.Sprintf("%x...(%d bytes)", f[:24], len(f)))
		} else {
			out = append(out, fmt.Sprintf("%x", f))
		}
	}
	return out
}

func checkClean(frames [][]byte, stream []byte, cuts []int, maxLen int) error {
	evs, err := readAll(stream, cuts, maxLen)
	if err != nil {
		return err
	}
	i := 0
	for _, e := range evs {
		if e.err != nil {
			return fmt.Errorf("Read returned error %q after %d of %d frames although the stream is undamaged", e.err, i, len(frames))
		}
		if i >= len(frames) {
			return fmt.Errorf("Read returned an extra frame %x after all %d frames", e.frame, len(frames))
		}
		if !bytes.Equal(e.frame, frames[i]) {
			return fmt.Errorf("frame %d: written %s, Read returned %s", i, short(frames[i]), short(e.frame))
		}
		i++
	}
	if i != len(frames) {
		return fmt.Errorf("only %d of %d frames were returned before the end of the input", i, len(frames))
	}
	return nil
}

func TestPropChunking(t *testing.T) {
	rapid.Check(t, func(t *rapid.T) {
		maxLen := maxLens().Draw(t, "maxLen")
		// the read buffer is the size client/serial.go gives it: the largest
		// frame (with its leading and its closing delimiter) fills it exactly
		frames := genFrames(t, maxLen, 0)
		stream, spans, err := encodeStream(frames, maxLen)
		if err != nil {
			t.Fatalf("Write: %v", err)
		}
		// idle line: a run of extra delimiters in front of a frame ("the stream may
		// optionally start with one or more NULL bytes", Read's own comment). The
		// run ends with a read boundary, so that the run is not part of the read
		// that brings the frame's first bytes -- the frame may then still fill
		// the buffer.
		var forced []int
		idle := false
		if rapid.IntRange(0, 3).Draw(t, "idleRuns") == 0 {
			idle = true
			var ns []byte
			var nspans [][2]int
			for i, sp := range spans {
				if rapid.Bool().Draw(t, "idleBefore") || i == 0 {
					k := rapid.SampledFrom([]int{1, 2, 3, 17, maxLen / 2, maxLen, maxLen + 5}).Draw(t, "idleLen")
					ns = append(ns, make([]byte, k)...)
					forced = append(forced, len(ns))
				}
				nspans = append(nspans, [2]int{len(ns), len(ns) + sp[1] - sp[0]})
				ns = append(ns, stream[sp[0]:sp[1]]...)
			}
			stream, spans = ns, nspans
		}
		emptyReadsEvery = rapid.SampledFrom([]int{0, 0, 1, 2, 3}).Draw(t, "emptyReadsEvery")
		defer func() { emptyReadsEvery = 0 }()
		cuts := genCuts(t, stream)
		if len(forced) > 0 {
			set := map[int]bool{}
			for _, c := range append(cuts, forced...) {
				set[c] = true
			}
			cuts = cuts[:0]
			for i := 1; i < len(stream); i++ {
				if set[i] {
					cuts = append(cuts, i)
				}
			}
		}
		if err := checkClean(frames, stream, cuts, maxLen); err != nil {
			t.Fatalf("%v\nframes: %v\nstream: %s\ncuts: %s (buffer %d)", err, hexs(frames), short(stream), shortInts(cuts), maxLen)
		}
		inside, joint := classifyCuts(spans, cuts)
		nt := len(frames) >= 2 && inside && joint
		var cls []string
		if inside {
			cls = append(cls, "cutInsideFrame")
		}
		if joint {
			cls = append(cls, "readSpansTwoFrames")
		}
		if len(cuts) == len(stream)-1 {
			cls = append(cls, "oneByteReads")
		}
		for _, f := range frames {
			if len(f) >= 253 {
				cls = append(cls, "frame>=253")
				break
			}
		}
		if idle {
			cls = append(cls, "idleDelimiterRuns")
		}
		if emptyReadsEvery > 0 {
			cls = append(cls, "emptyDeviceReads")
		}
		for _, f := range frames {
			if len(f) == maxPayloadFor(maxLen) {
				cls = append(cls, "frameFillsBuffer")
				break
			}
		}
		stats.Case(nt, stats.Digest(fmt.Sprintf("%x|%v|%d", stream, cuts, maxLen)), cls...)
		if nt && stats.WantSample() {
			stats.Sample(map[string]any{"frames": hexs(frames), "stream_bytes": len(stream), "cuts": cuts, "buffer": maxLen})
		}
	})
}

// ---------------------------------------------------------------------------
// damage

func TestPropDamage(t *testing.T) {
	rapid.Check(t, func(t *rapid.T) {
		maxLen := maxLens().Draw(t, "maxLen")
		// delimiters that reach the reader in one read with a frame's first bytes
		// take room in the buffer: a damage run can put up to three more of them in
		// front of an intact frame, hence the spare bytes (assumption, see DESIGN)
		frames := genFrames(t, maxLen, 5)
		stream, spans, err := encodeStream(frames, maxLen)
		if err != nil {
			t.Fatalf("Write: %v", err)
		}
		// one damage event: a run of bytes is overwritten, lost, or inserted. Runs of
		// two or three reach across the two delimiters between frames (frames get
		// glued together); inserted noise may be longer than the read buffer.
		d := rapid.IntRange(0, len(stream)-1).Draw(t, "damagePos")
		kind := rapid.SampledFrom([]string{"toZero", "toNonZero", "delete", "insertZero", "insertNonZero"}).Draw(t, "damageKind")
		run := rapid.SampledFrom([]int{1, 1, 1, 2, 3}).Draw(t, "damageRun")
		if kind == "delete" {
			run = rapid.SampledFrom([]int{1, 1, 2, 3, 8}).Draw(t, "deleteRun")
		}
		if kind == "insertNonZero" {
			run = rapid.SampledFrom([]int{1, 1, 2, 5, maxLen / 2, maxLen + 10}).Draw(t, "noiseRun")
		}
		if kind != "insertZero" && kind != "insertNonZero" && d+run > len(stream) {
			run = len(stream) - d
		}
		var dmg []byte
		shift := 0
		origLen := run // bytes of the original stream covered by the damage
		switch kind {
		case "toZero":
			dmg = append([]byte{}, stream...)
			for k := 0; k < run; k++ {
				dmg[d+k] = 0
			}
		case "toNonZero":
			dmg = append([]byte{}, stream...)
			for k := 0; k < run; k++ {
				nb := rapid.ByteRange(1, 255).Draw(t, "newByte")
				if nb == dmg[d+k] {
					nb ^= 0x55
					if nb == 0 {
						nb = 1
					}
				}
				dmg[d+k] = nb
			}
		case "delete":
			dmg = append(append([]byte{}, stream[:d]...), stream[d+run:]...)
			shift = -run
		case "insertZero", "insertNonZero":
			ins := make([]byte, run)
			if kind == "insertNonZero" {
				fill := rapid.ByteRange(1, 255).Draw(t, "insByte")
				for k := range ins {
					ins[k] = fill
					if k%7 == 3 {
						ins[k] = byte(1 + (int(fill)+k)%255)
					}
				}
			}
			dmg = append(append(append([]byte{}, stream[:d]...), ins...), stream[d:]...)
			shift = run
			origLen = 0
		}
		cuts := genCuts(t, dmg)
		evs, err := readAll(dmg, cuts, maxLen)
		if err != nil {
			t.Fatalf("%v\nframes %v\ndamaged stream %x cuts %v", err, hexs(frames), dmg, cuts)
		}
		// frames that end before the damage
		var before, after [][]byte
		for i, s := range spans {
			if s[1] <= d {
				before = append(before, frames[i])
			}
		}
		// z: first delimiter at or after the damage in the damaged stream
		z := -1
		for i := d; i < len(dmg); i++ {
			if dmg[i] == 0 {
				z = i
				break
			}
		}
		if z >= 0 {
			for i, s := range spans {
				if s[0] >= d+origLen && s[0]+shift > z {
					after = append(after, frames[i])
				}
			}
		}
		var got [][]byte
		for _, e := range evs {
			if e.err == nil {
				got = append(got, e.frame)
			}
		}
		report := func(msg string) {
			t.Fatalf("%s\nframes: %v\nspans: %v\ndamage: %s at %d, next delimiter at %d\ndamaged stream: %s\ncuts: %s (buffer %d)\nreturned: %v",
				msg, hexs(frames), spans, kind, d, z, short(dmg), shortInts(cuts), maxLen, hexs(got))
		}
		if len(got) < len(before)+len(after) {
			report(fmt.Sprintf("%d frames end before the damage and %d begin after the next delimiter, but only %d frames were returned", len(before), len(after), len(got)))
		}
		for i, f := range before {
			if !bytes.Equal(got[i], f) {
				report(fmt.Sprintf("frame %d ends before the damage but was not delivered intact first", i))
			}
		}
		for i, f := range after {
			g := got[len(got)-len(after)+i]
			if !bytes.Equal(g, f) {
				report(fmt.Sprintf("intact frame after the next delimiter was lost or altered (expected %x)", f))
			}
		}
		nt := len(frames) >= 2 && len(after) >= 1
		dcls := []string{"damage:" + kind}
		if run >= 2 {
			dcls = append(dcls, "damageRun>=2")
		}
		if run > maxLen {
			dcls = append(dcls, "noiseLongerThanBuffer")
		}
		stats.Case(nt, stats.Digest(fmt.Sprintf("%x|%v|%d|%s", dmg, cuts, d, kind)), dcls...)
		if nt && stats.WantSample() {
			stats.Sample(map[string]any{"frames": hexs(frames), "damage": kind, "at": d, "frames_before": len(before), "frames_after_delimiter": len(after), "cuts": len(cuts)})
		}
	})
}

// FuzzChunking: bytes -> frames (length-prefixed) and a cut bitmap.
func FuzzChunking(f *testing.F) {
	f.Add([]byte{3, 1, 2, 3, 2, 0, 0}, []byte{0xff})
	f.Add([]byte{1, 0, 1, 0, 5, 1, 0, 2, 0, 3}, []byte{0x55, 0xaa})
	f.Add(append([]byte{254}, bytes.Repeat([]byte{7}, 254)...), []byte{0x01, 0x80})
	f.Add([]byte{2, 9, 9, 2, 8, 8, 2, 7, 7}, []byte{})
	f.Fuzz(func(t *testing.T, b []byte, bitmap []byte) {
		const maxLen = 600
		var frames [][]byte
		for len(b) > 1 && len(frames) < 6 {
			n := int(b[0])
			if n == 0 {
				n = 1
			}
			b = b[1:]
			if n > len(b) {
				n = len(b)
			}
			if n == 0 {
				break
			}
			frames = append(frames, b[:n])
			b = b[n:]
		}
		if len(frames) == 0 {
			return
		}
		stream, _, err := encodeStream(frames, maxLen)
		if err != nil {
			t.Fatal(err)
		}
		var cuts []int
		for i := 1; i < len(stream); i++ {
			if len(bitmap) > 0 && bitmap[(i/8)%len(bitmap)]&(1<<(i%8)) != 0 {
				cuts = append(cuts, i)
			}
		}
		if err := checkClean(frames, stream, cuts, maxLen); err != nil {
			t.Fatalf("%v\nframes %v\nstream %x\ncuts %v", err, hexs(frames), stream, cuts)
		}
	})
}
