package c16

import (
	"bytes"
	"testing"
)

func clean(t *testing.T, frames [][]byte, cuts []int) {
	t.Helper()
	stream, _, err := encodeStream(frames, 1024)
	if err != nil {
		t.Fatal(err)
	}
	if err := checkClean(frames, stream, cuts, 1024); err != nil {
		t.Fatalf("%v\nframes %v cuts %v", err, hexs(frames), cuts)
	}
}

// several frames in one device read: the rest must not be lost
func TestRegressSeveralFramesPerRead(t *testing.T) {
	clean(t, [][]byte{{1, 2, 3}, {4, 5}, {6}}, nil)
}

// a frame split across device reads
func TestRegressFrameSplitAcrossReads(t *testing.T) {
	fr := [][]byte{{1, 2, 3, 0, 4}, {9, 9, 9, 9}}
	stream, _, _ := encodeStream(fr, 1024)
	for c := 1; c < len(stream); c++ {
		clean(t, fr, []int{c})
	}
	var all []int
	for c := 1; c < len(stream); c++ {
		all = append(all, c)
	}
	clean(t, fr, all)
}

// a zero byte after a run of exactly 254 non-zero bytes
func TestRegressZeroAfter254NonZero(t *testing.T) {
	f := append(bytes.Repeat([]byte{1}, 254), 0)
	clean(t, [][]byte{f}, nil)
	clean(t, [][]byte{append(f, 7), bytes.Repeat([]byte{2}, 508), append(bytes.Repeat([]byte{3}, 508), 0, 0)}, nil)
}
