// Package c04 decides property C04: a crash (SIGKILL) at any instant loses no
// acknowledged write, shows each batch completely or not at all, keeps the
// instance root and signing key, and leaves hashes consistent.
package c04

import (
	"bufio"
	"bytes"
	"encoding/json"
	"fmt"
	"net/http"
	"os"
	"os/exec"
	"path/filepath"
	"sort"
	"strconv"
	"strings"
	"testing"
	"time"

	"github.com/golang-jwt/jwt/v4"
	"github.com/simpleiot/simpleiot/data"
	"pgregory.net/rapid"

	"verif/internal/fix"
	"verif/internal/model"
	"verif/internal/stats"
)

var (
	supBin, writerBin string
)

func TestMain(m *testing.M) {
	fix.Quiet()
	dir := os.Getenv("VERIF_SCRATCH")
	if dir == "" || !exists(filepath.Join(dir, "crashsup")) {
		// stand-alone use (development): build the two helpers
		d, err := os.MkdirTemp("", "c04bin-")
		if err != nil {
			panic(err)
		}
		defer os.RemoveAll(d)
		for _, p := range []string{"crashsup", "crashwriter"} {
			c := exec.Command("go", "build", "-o", filepath.Join(d, p), "./cmd/"+p)
			c.Dir = ".."
			if out, err := c.CombinedOutput(); err != nil {
				fmt.Println(string(out))
				panic(err)
			}
		}
		dir = d
	}
	supBin, writerBin = filepath.Join(dir, "crashsup"), filepath.Join(dir, "crashwriter")
	stats.Main(m)
}

func exists(p string) bool { _, err := os.Stat(p); return err == nil }

// wire form of the history (same shape as cmd/crashwriter)
type wp struct {
	Type, Key, Text, Origin string
	TimeNs                  int64
	Value                   float64
	Tombstone               int
	Data                    []byte
}
type wbatch struct {
	Subject string
	Points  []wp
}

// state is the model after a prefix of the history.
type state struct {
	edges map[string]*medge
	nodes map[string]model.PointSet
	root  string
}
type medge struct {
	parent, id, typ string
	points          model.PointSet
}

func (s *state) clone() *state {
	c := &state{edges: map[string]*medge{}, nodes: map[string]model.PointSet{}, root: s.root}
	for k, e := range s.edges {
		ne := &medge{e.parent, e.id, e.typ, model.PointSet{}}
		for i, p := range e.points {
			ne.points[i] = p
		}
		c.edges[k] = ne
	}
	for k, ps := range s.nodes {
		n := model.PointSet{}
		for i, p := range ps {
			n[i] = p
		}
		c.nodes[k] = n
	}
	return c
}

type history struct {
	batches []wbatch
	after   []*state // after[i] = model after batch i
	desc    []string
	large   bool // holds a batch of more than 32 points
}

func toFix(p wp) fix.P {
	return fix.FromPoint(data.Point{Type: p.Type, Key: p.Key, Text: p.Text, Origin: p.Origin, Time: time.Unix(0, p.TimeNs), Value: p.Value, Tombstone: p.Tombstone, Data: p.Data})
}

func genHistory(t *rapid.T) *history {
	h := &history{}
	cur := &state{edges: map[string]*medge{}, nodes: map[string]model.PointSet{}, root: "inst"}
	clock := int64(1800000000) * 1e9
	tick := func() int64 { clock += 1000; return clock }
	placed := []string{"inst"}
	apply := func(b wbatch, d string) {
		parts := strings.Split(b.Subject, ".")
		if len(parts) == 2 {
			ps := cur.nodes[parts[1]]
			if ps == nil {
				ps = model.PointSet{}
				cur.nodes[parts[1]] = ps
			}
			for _, p := range b.Points {
				ps.Apply(toFix(p))
			}
		} else {
			k := parts[2] + ">" + parts[1]
			e := cur.edges[k]
			if e == nil {
				e = &medge{parent: parts[2], id: parts[1], points: model.PointSet{}}
				cur.edges[k] = e
				if parts[2] == "root" {
					cur.root = parts[1] // a new edge under "root" replaces the instance root
				}
			}
			for _, p := range b.Points {
				if p.Type == data.PointTypeNodeType {
					e.typ = p.Text
					continue
				}
				e.points.Apply(toFix(p))
			}
		}
		h.batches = append(h.batches, b)
		h.after = append(h.after, cur.clone())
		h.desc = append(h.desc, d)
	}
	nodePts := func(id string) wbatch {
		b := wbatch{Subject: "p." + id}
		if rapid.IntRange(0, 5).Draw(t, "largeBatch") == 0 {
			// an array-like configuration written in one batch: all of it or none of it
			n := rapid.IntRange(33, 150).Draw(t, "nLarge")
			for k := 0; k < n; k++ {
				b.Points = append(b.Points, wp{Type: "arr", Key: strconv.Itoa(k), Value: float64(k), Text: "e", TimeNs: tick(), Origin: "h"})
			}
			h.large = true
			return b
		}
		for k := rapid.IntRange(1, 5).Draw(t, "npts"); k > 0; k-- {
			b.Points = append(b.Points, wp{Type: rapid.SampledFrom([]string{"value", "description", "a", "b"}).Draw(t, "ptype"), Key: rapid.SampledFrom([]string{"", "1", "2"}).Draw(t, "pkey"),
				Text: rapid.StringMatching(`[a-z]{0,30}`).Draw(t, "ptext"), Value: float64(rapid.IntRange(-99, 99).Draw(t, "pvalue")), TimeNs: tick(), Origin: "h"})
		}
		return b
	}
	newEdge := func(id, parent, typ string) wbatch {
		b := wbatch{Subject: "p." + id + "." + parent, Points: []wp{{Type: data.PointTypeTombstone, TimeNs: tick()}, {Type: data.PointTypeNodeType, Text: typ}}}
		if rapid.Bool().Draw(t, "extraEdgePoint") {
			b.Points = append(b.Points, wp{Type: "role", Text: "r", TimeNs: tick()})
		}
		return b
	}
	nNew := 0
	wantSwap := rapid.Bool().Draw(t, "historyWithRootSwap")
	n := rapid.IntRange(5, 25).Draw(t, "nbatches")
	for len(h.batches) < n {
		switch rapid.SampledFrom([]string{"create", "create", "nodePoints", "nodePoints", "edgePoints", "mirror", "delete", "rootSwap"}).Draw(t, "op") {
		case "rootSwap":
			// the documented import-at-root path: edge row, meta.root_id and hashes change together
			if cur.root != "inst" || !wantSwap {
				continue
			}
			apply(newEdge("r1", "root", "device"), "new root r1")
		case "create":
			if nNew >= 8 {
				continue
			}
			nNew++
			id := fmt.Sprintf("n%d", nNew)
			parent := rapid.SampledFrom(placed).Draw(t, "parent")
			if rapid.Bool().Draw(t, "pointsFirst") {
				apply(nodePts(id), "points of new node "+id)
				apply(newEdge(id, parent, "variable"), "new edge "+parent+">"+id+" above existing points")
			} else {
				apply(newEdge(id, parent, "variable"), "new edge "+parent+">"+id)
				apply(nodePts(id), "points of "+id)
			}
			placed = append(placed, id)
		case "nodePoints":
			id := rapid.SampledFrom(placed).Draw(t, "node")
			if id == "inst" {
				continue
			}
			apply(nodePts(id), "points of "+id)
		case "edgePoints", "delete":
			var keys []string
			for k, e := range cur.edges {
				if e.parent != "root" { // a tombstone aimed at a root is refused by design (C05)
					keys = append(keys, k)
				}
			}
			if len(keys) == 0 {
				continue
			}
			sort.Strings(keys)
			e := cur.edges[rapid.SampledFrom(keys).Draw(t, "edge")]
			b := wbatch{Subject: "p." + e.id + "." + e.parent}
			b.Points = append(b.Points, wp{Type: data.PointTypeTombstone, Value: float64(rapid.IntRange(0, 1).Draw(t, "del")), TimeNs: tick()})
			b.Points = append(b.Points, wp{Type: "role", Text: rapid.SampledFrom([]string{"x", "y"}).Draw(t, "role"), TimeNs: tick()})
			apply(b, "edge points on "+e.parent+">"+e.id)
		case "mirror":
			if len(placed) < 3 {
				continue
			}
			id := placed[len(placed)-1]
			parent := placed[1]
			if id == parent || cur.edges[parent+">"+id] != nil || cur.edges[id+">"+parent] != nil {
				continue
			}
			// no cycles: only mirror a leaf created last under an early node
			hasKids := false
			for _, e := range cur.edges {
				if e.parent == id {
					hasKids = true
				}
			}
			if hasKids {
				continue
			}
			apply(newEdge(id, parent, "variable"), "mirror "+id+" under "+parent)
		}
	}
	return h
}

type runResult struct {
	ready   bool
	root    string
	token   string
	lastAck int
	done    bool
	outAt   map[int]int // k-th stdout line -> I/O count
	total   int
	killed  bool
}

func run(dir, histFile string, n int) (runResult, error) {
	r := runResult{lastAck: -1, outAt: map[int]int{}}
	cmd := exec.Command(supBin, "-n", fmt.Sprint(n), writerBin, dir, histFile)
	var so, se bytes.Buffer
	cmd.Stdout, cmd.Stderr = &so, &se
	done := make(chan error, 1)
	if err := cmd.Start(); err != nil {
		return r, err
	}
	go func() { done <- cmd.Wait() }()
	select {
	case <-done:
	case <-time.After(60 * time.Second):
		cmd.Process.Kill()
		return r, fmt.Errorf("supervisor timed out")
	}
	sc := bufio.NewScanner(&so)
	sc.Buffer(make([]byte, 1<<20), 1<<20)
	for sc.Scan() {
		f := strings.Fields(sc.Text())
		switch {
		case len(f) == 3 && f[0] == "READY":
			r.ready, r.root, r.token = true, f[1], f[2]
		case len(f) == 2 && f[0] == "ACK":
			fmt.Sscan(f[1], &r.lastAck)
		case len(f) == 1 && f[0] == "DONE":
			r.done = true
		}
	}
	for _, l := range strings.Split(se.String(), "\n") {
		f := strings.Fields(l)
		switch {
		case len(f) == 3 && f[0] == "OUT":
			var k, c int
			fmt.Sscan(f[1], &k)
			fmt.Sscan(f[2], &c)
			r.outAt[k] = c
		case len(f) == 2 && f[0] == "TOTAL":
			fmt.Sscan(f[1], &r.total)
		case len(f) == 2 && f[0] == "KILLED":
			r.killed = true
		}
	}
	if !r.killed && !r.done {
		return r, fmt.Errorf("writer ended without being killed and without finishing:\n%s\n%s", so.String(), se.String())
	}
	return r, nil
}

// verify reopens the store file and checks the recovered content.
func verify(h *history, dir string, r runResult) error {
	in, err := fix.Start(fix.Opts{Dir: dir, ID: "inst"})
	if err != nil {
		return fmt.Errorf("the store file does not open again: %v", err)
	}
	defer in.Close()
	if r.ready {
		if r.root != "inst" {
			return fmt.Errorf("root id reported at start-up is %q, configured \"inst\"", r.root)
		}
		req, _ := http.NewRequest("GET", "/", nil)
		req.Header.Set("Authorization", "Bearer "+r.token)
		if ok, _ := in.St.GetAuthorizer().Valid(req); !ok {
			return fmt.Errorf("a token issued before the crash is no longer accepted: the signing key changed")
		}
	}
	other, _ := jwt.NewWithClaims(jwt.SigningMethodHS256, jwt.StandardClaims{ExpiresAt: time.Now().Add(time.Hour).Unix(), Id: "x"}).SignedString([]byte("not-the-instance-key"))
	req, _ := http.NewRequest("GET", "/", nil)
	req.Header.Set("Authorization", "Bearer "+other)
	if ok, _ := in.St.GetAuthorizer().Valid(req); ok {
		return fmt.Errorf("a token signed with another key is accepted after restart")
	}
	// expected content: every batch <= lastAck, and the next one completely or not at all
	k := r.lastAck
	var base, next *state
	if k >= 0 {
		base = h.after[k]
	} else {
		base = &state{edges: map[string]*medge{}, nodes: map[string]model.PointSet{}, root: "inst"}
	}
	if k+1 < len(h.batches) {
		next = h.after[k+1]
	}
	if base.root == "" {
		base.root = "inst"
	}
	okRoot := in.RootID == base.root || (next != nil && in.RootID == next.root)
	if !okRoot {
		return fmt.Errorf("instance root is %q after restart; last acknowledged state has root %q", in.RootID, base.root)
	}
	var extra [][2]string
	last := base
	if next != nil {
		last = next
	}
	for _, e := range last.edges {
		extra = append(extra, [2]string{e.parent, e.id})
	}
	d, err := fix.Dump(in.NC, extra)
	if err != nil {
		return fmt.Errorf("recovered instance cannot be read: %v", err)
	}
	for _, e := range d {
		if e.Parent == "root" && e.ID == "r1" && in.RootID != "r1" {
			return fmt.Errorf("the new root's edge root>r1 exists but the instance root is still %q: edge row and root id are out of step", in.RootID)
		}
	}
	if in.RootID == "r1" {
		found := false
		for _, e := range d {
			found = found || (e.Parent == "root" && e.ID == "r1")
		}
		if !found {
			return fmt.Errorf("the instance root is r1 but its edge does not exist")
		}
	}
	if s := model.CheckHashes(d); s != "" {
		return fmt.Errorf("points and hashes are out of step after recovery:\n%s%s", s, fix.DumpString(d))
	}
	match := func(st *state) string {
		seen := map[string]bool{}
		for _, e := range d {
			me := st.edges[e.Key()]
			if me == nil {
				if (strings.HasPrefix(e.ID, "n") && len(e.ID) <= 3) || e.ID == "r1" {
					return "edge " + e.Key() + " exists but is not in the expected state"
				}
				continue // root, admin user
			}
			seen[e.Key()] = true
			if e.Type != me.typ {
				return fmt.Sprintf("edge %s has type %q, expected %q", e.Key(), e.Type, me.typ)
			}
			want := st.nodes[e.ID]
			if want == nil {
				want = model.PointSet{}
			}
			if s := model.DiffPoints("node "+e.ID, e.Points, want, false); s != "" {
				return s
			}
			if s := model.DiffPoints("edge "+e.Key(), e.EdgePoints, me.points, false); s != "" {
				return s
			}
		}
		for key := range st.edges {
			if !seen[key] {
				return "edge " + key + " is missing"
			}
		}
		return ""
	}
	why := match(base)
	if why != "" && next != nil {
		if why2 := match(next); why2 == "" {
			why = ""
		} else {
			why = fmt.Sprintf("content matches neither the state without the in-flight batch (%s) nor the state with it (%s)", strings.TrimSpace(why), strings.TrimSpace(why2))
		}
	}
	if why != "" {
		inflight := "none"
		if k+1 < len(h.desc) {
			inflight = h.desc[k+1]
		}
		return fmt.Errorf("after recovery (last acknowledged batch %d, in flight: %s): %s\n%s", k, inflight, why, fix.DumpString(d))
	}
	// a client that got no acknowledgement sends the batch again: afterwards it must be
	// there completely (this also exposes a half-applied batch whose visible part looked
	// like "not at all")
	if next != nil {
		b := h.batches[k+1]
		var pts data.Points
		for _, p := range b.Points {
			pts = append(pts, data.Point{Type: p.Type, Key: p.Key, Text: p.Text, Origin: p.Origin, Time: time.Unix(0, p.TimeNs), Value: p.Value, Tombstone: p.Tombstone, Data: p.Data})
		}
		rep, err := fix.Write(in.NC, b.Subject, pts)
		if err != nil || rep != "" {
			return fmt.Errorf("re-sending the in-flight batch (%s) after recovery: %q %v", h.desc[k+1], rep, err)
		}
		d, err = fix.Dump(in.NC, extra)
		if err != nil {
			return fmt.Errorf("read after re-sending the in-flight batch: %v", err)
		}
		if why := match(next); why != "" {
			return fmt.Errorf("after recovery and re-sending the in-flight batch (%s) the content is still not complete: %s\n%s", h.desc[k+1], why, fix.DumpString(d))
		}
		if s := model.CheckHashes(d); s != "" {
			return fmt.Errorf("hashes out of step after re-sending the in-flight batch (%s):\n%s", h.desc[k+1], s)
		}
		roots, err := in.Get("root", "all", false)
		if err != nil || len(roots) != 1 || roots[0].ID != next.root {
			return fmt.Errorf("after re-sending the in-flight batch (%s) the instance root is %v (%v), expected %q", h.desc[k+1], roots, err, next.root)
		}
	}
	// the instance keeps working
	if rep, err := in.NodePoints("inst", data.Points{{Type: "afterCrash", Value: 1, Time: time.Now()}}); err != nil || rep != "" {
		return fmt.Errorf("write after recovery: %q %v", rep, err)
	}
	return nil
}

func TestPropCrashAnywhere(t *testing.T) {
	thorough := stats.Tier() == "thorough"
	rapid.Check(t, func(t *rapid.T) {
		h := genHistory(t)
		tmp, err := os.MkdirTemp("", "c04-")
		if err != nil {
			t.Fatalf("%v", err)
		}
		defer os.RemoveAll(tmp)
		hf := filepath.Join(tmp, "history.json")
		b, _ := json.Marshal(h.batches)
		os.WriteFile(hf, b, 0o644)
		// dry run: how many I/O calls, where READY and the ACKs fall
		d0 := filepath.Join(tmp, "dry")
		os.Mkdir(d0, 0o755)
		dry, err := run(d0, hf, 0)
		if err != nil || !dry.done {
			t.Fatalf("dry run failed: %v %+v", err, dry)
		}
		if err := verify(h, d0, dry); err != nil {
			t.Fatalf("without any crash: %v", err)
		}
		W := dry.total
		readyAt := dry.outAt[1]
		// kill points
		var kills []int
		if thorough {
			for n := 1; n <= W; n++ {
				kills = append(kills, n)
			}
		} else {
			kills = append(kills, 1, W, readyAt, readyAt+1)
			for i := 0; i < 4; i++ {
				kills = append(kills, rapid.IntRange(1, readyAt).Draw(t, "killDuringInit"))
			}
			for i := 0; i < 10; i++ {
				kills = append(kills, rapid.IntRange(readyAt+1, W).Draw(t, "killDuringHistory"))
			}
			// the last I/O calls before an acknowledgement: where a write that is split
			// into "committed" and "still to do" parts would be caught in between
			for i := 0; i < 3; i++ {
				k := rapid.IntRange(0, len(h.batches)-1).Draw(t, "killBeforeAckOf")
				at := dry.outAt[k+2]
				for j := 0; j < 3; j++ {
					if at-j > readyAt {
						kills = append(kills, at-j)
					}
				}
			}
			// and every call of a root replacement, if the history has one
			for k, d := range h.desc {
				if d == "new root r1" {
					for n := dry.outAt[k+1] + 1; n <= dry.outAt[k+2]; n++ {
						kills = append(kills, n)
					}
				}
			}
		}
		inside := 0
		hist := map[string]int{}
		for ci, n := range kills {
			dir := filepath.Join(tmp, fmt.Sprintf("k%d", ci))
			os.Mkdir(dir, 0o755)
			r, err := run(dir, hf, n)
			if err != nil {
				t.Fatalf("kill at I/O call %d: %v", n, err)
			}
			if err := verify(h, dir, r); err != nil {
				t.Fatalf("killed at I/O call %d of %d (READY after %d; history: %v):\n%v", n, W, readyAt, h.desc, err)
			}
			os.RemoveAll(dir)
			switch {
			case !r.ready:
				hist["beforeReady"]++
			case !r.killed:
				hist["notKilled"]++
			default:
				hist["afterReady"]++
				// strictly inside a batch: after the previous ACK's output and before this batch's ACK
				ackAt := dry.outAt[r.lastAck+3] // line 1 = READY, line k+2 = ACK k
				prevAt := dry.outAt[r.lastAck+2]
				if n > prevAt+1 && n <= ackAt {
					inside++
				}
			}
		}
		for k, v := range hist {
			stats.Class("kill:"+k, int64(v))
		}
		stats.Enumerated(int64(len(kills)), 0)
		hcls := []string{fmt.Sprintf("batches%d", len(h.batches)/10*10)}
		if h.large {
			hcls = append(hcls, "batchOf>32Points")
		}
		stats.Case(inside >= 2, stats.Digest(fmt.Sprint(h.desc), fmt.Sprint(kills)), hcls...)
		if thorough {
			stats.Class("historiesWithEveryKillPointEnumerated", 1)
		}
		if stats.WantSample() {
			stats.Sample(map[string]any{"batches": h.desc, "io_calls": W, "ready_after": readyAt, "kill_points": len(kills), "kills_inside_a_batch": inside})
		}
	})
}
