// Package c01 decides property C01: newest point wins whatever the delivery
// order, batching, duplication or re-delivery; node points and edge points.
package c01

import (
	"fmt"
	"testing"
	"time"

	"github.com/simpleiot/simpleiot/data"
	"pgregory.net/rapid"

	"verif/internal/fix"
	"verif/internal/gen"
	"verif/internal/model"
	"verif/internal/stats"
)

func TestMain(m *testing.M) { fix.Quiet(); stats.Main(m) }

// target is a node (Parent == "") or an edge.
type target struct {
	ID, Parent string
}

func (t target) subject() string {
	if t.Parent == "" {
		return "p." + t.ID
	}
	return "p." + t.ID + "." + t.Parent
}

func (t target) String() string {
	if t.Parent == "" {
		return "node " + t.ID
	}
	return "edge " + t.Parent + ">" + t.ID
}

type delivery struct {
	T int // target index
	P data.Point
}

type batch struct {
	T   int
	Pts data.Points
}

type scenario struct {
	targets []target
	points  []delivery // the set of distinct points

	sameContent bool // some identity has several points that differ only in time
}

const rootID = "inst"

func fixedTargets() []target {
	return []target{
		{ID: "n0"}, {ID: "n1"}, {ID: rootID},
		{ID: "n0", Parent: rootID}, {ID: "n1", Parent: rootID}, {ID: "n0", Parent: "n1"}, {ID: rootID, Parent: "root"},
	}
}

// genScenario draws the set of points.
func genScenario(t *rapid.T) scenario {
	sc := scenario{}
	all := fixedTargets()
	nt := rapid.IntRange(2, 4).Draw(t, "ntargets")
	idx := rapid.Permutation([]int{0, 1, 2, 3, 4, 5, 6}).Draw(t, "targetPick")[:nt]
	ids := []string{"n0", "n1", rootID}
	for _, ti := range idx {
		tg := all[ti]
		sc.targets = append(sc.targets, tg)
		tix := len(sc.targets) - 1
		// identities
		type ident struct{ typ, key string }
		var idents []ident
		seen := map[model.Ident]bool{}
		add := func(typ, key string) {
			if tg.Parent != "" && typ == data.PointTypeNodeType {
				typ = "nodeTypeX" // node-type edge points are not stored by design
			}
			if tg.Parent == "root" && typ == data.PointTypeTombstone {
				typ = "tombstoneX" // deleting the root is refused (C05), not C01's business
			}
			id := model.IdentOf(typ, key)
			if seen[id] {
				return
			}
			seen[id] = true
			idents = append(idents, ident{typ, id.Key})
		}
		switch rapid.IntRange(0, 4).Draw(t, "special") {
		case 0: // identities whose type+key concatenations coincide
			add("ab", "0")
			add("a", "b0")
			add("a", "b")
			add("ab", "")
		case 1:
			add("a", "0")
			add("a0", "0")
			add("a", "00")
		case 2:
			// the same construction with a separator: (A+sep+B, C) and (A, B+sep+C)
			// coincide under any map key built as type+sep+key
			sep := rapid.SampledFrom([]string{":", ".", "/", "|", "-", " ", "\x00", ",", "_", "="}).Draw(t, "sep")
			add("a"+sep+"b", "c")
			add("a", "b"+sep+"c")
			add("a"+sep, "c")
			add("a", sep+"c")
		}
		n := rapid.IntRange(1, 6).Draw(t, "nident")
		for i := 0; i < n; i++ {
			add(gen.Type().Draw(t, "type"), gen.Key().Draw(t, "key"))
		}
		if rapid.IntRange(0, 19).Draw(t, "manyIdentities") == 0 {
			// an array-like point set: many keys of one type (large batches)
			for i := rapid.IntRange(40, 300).Draw(t, "nkeys"); i > 0; i-- {
				add("arr", fmt.Sprint(i))
			}
		}
		for _, id := range idents {
			k := rapid.IntRange(1, 5).Draw(t, "npoints")
			times := gen.DistinctTimes(t, k, "time")
			// a quarter of the identities repeat one reading: the points differ in
			// nothing but their time (a sensor re-sending the same value; a node
			// re-sent with its unchanged edge points)
			sameContent := k >= 2 && rapid.IntRange(0, 3).Draw(t, "sameContent") == 0
			var first data.Point
			for i, ns := range times {
				p := data.Point{Type: id.typ, Key: id.key, Time: time.Unix(0, ns)}
				if id.key == "0" && rapid.Bool().Draw(t, "blankKey") {
					p.Key = ""
				}
				if sameContent && i > 0 {
					p.Value, p.Text, p.Data, p.Tombstone, p.Origin = first.Value, first.Text, first.Data, first.Tombstone, first.Origin
				} else {
					gen.PointFields(t, &p, ids)
					first = p
				}
				sc.points = append(sc.points, delivery{T: tix, P: p})
			}
			if sameContent {
				sc.sameContent = true
			}
		}
	}
	return sc
}

// genDelivery draws an order with duplicates and cuts it into batches.
func genDelivery(t *rapid.T, sc scenario, label string) []batch {
	list := append([]delivery(nil), sc.points...)
	ndup := rapid.IntRange(0, 8).Draw(t, label+"ndup")
	for i := 0; i < ndup; i++ {
		list = append(list, sc.points[rapid.IntRange(0, len(sc.points)-1).Draw(t, label+"dup")])
	}
	list = rapid.Permutation(list).Draw(t, label+"order")
	var out []batch
	used := make([]bool, len(list))
	for i := range list {
		if used[i] {
			continue
		}
		size := rapid.IntRange(1, 8).Draw(t, label+"batch")
		if len(list) > 60 && rapid.Bool().Draw(t, label+"bigBatch") {
			size = rapid.IntRange(50, 400).Draw(t, label+"bigBatchSize")
		}
		b := batch{T: list[i].T}
		for j := i; j < len(list) && len(b.Pts) < size; j++ {
			if !used[j] && list[j].T == b.T {
				used[j] = true
				b.Pts = append(b.Pts, list[j].P)
			}
		}
		out = append(out, b)
	}
	return out
}

func setup(t fix.TB) *fix.Inst {
	in := fix.New(t, fix.Opts{ID: rootID})
	for _, e := range [][2]string{{"n0", rootID}, {"n1", rootID}, {"n0", "n1"}} {
		r, err := in.EdgePoints(e[0], e[1], data.Points{{Type: data.PointTypeNodeType, Text: "t"}})
		if err != nil || r != "" {
			in.Close()
			t.Fatalf("setup edge %v: reply %q err %v", e, r, err)
		}
	}
	return in
}

// read returns the points of the target as the API shows them.
func read(in *fix.Inst, tg target) ([]fix.P, error) {
	parent := tg.Parent
	if parent == "" {
		parent = "all"
	}
	nodes, err := in.Get(parent, tg.ID, true)
	if err != nil {
		return nil, err
	}
	if len(nodes) == 0 {
		return nil, fmt.Errorf("%v not found", tg)
	}
	e := fix.FromNodeEdge(nodes[0])
	if tg.Parent == "" {
		return e.Points, nil
	}
	return e.EdgePoints, nil
}

type runStats struct {
	stale, dupInBatch, emptyAndZero, concat, redelivered bool
}

// run delivers the batches, checking the target after every acknowledged
// batch; returns the final model per target.
func run(t *rapid.T, in *fix.Inst, sc scenario, bs []batch, rs *runStats, name string) []model.PointSet {
	models := make([]model.PointSet, len(sc.targets))
	for i, tg := range sc.targets {
		models[i] = model.PointSet{}
		init, err := read(in, tg)
		if err != nil {
			t.Fatalf("%s: initial read of %v: %v", name, tg, err)
		}
		for _, p := range init {
			models[i].Apply(p)
		}
	}
	sent := map[string]bool{}
	for bi, b := range bs {
		tg := sc.targets[b.T]
		// classify
		byIdent := map[model.Ident]int{}
		concat := map[string]model.Ident{}
		blank, zero := map[string]bool{}, map[string]bool{}
		for _, p := range b.Pts {
			id := model.IdentOf(p.Type, p.Key)
			byIdent[id]++
			if byIdent[id] > 1 {
				rs.dupInBatch = true
			}
			if o, ok := concat[p.Type+p.Key]; ok && o != id {
				rs.concat = true
			}
			concat[p.Type+p.Key] = id
			if p.Key == "" {
				blank[p.Type] = true
			}
			if p.Key == "0" {
				zero[p.Type] = true
			}
			if blank[p.Type] && zero[p.Type] {
				rs.emptyAndZero = true
			}
			fp := fix.FromPoint(p)
			if old, ok := models[b.T][id]; ok && old.TimeNs > fp.TimeNs {
				rs.stale = true
			}
			k := fmt.Sprint(b.T, fp)
			if sent[k] {
				rs.redelivered = true
			}
			sent[k] = true
		}
		reply, err := fix.Write(in.NC, tg.subject(), b.Pts)
		if err != nil {
			t.Fatalf("%s: batch %d to %v: no reply: %v", name, bi, tg, err)
		}
		if reply != "" {
			t.Fatalf("%s: batch %d to %v refused: %q\npoints: %v", name, bi, tg, reply, describe(b.Pts))
		}
		for _, p := range b.Pts {
			models[b.T].Apply(fix.FromPoint(p))
		}
		got, err := read(in, tg)
		if err != nil {
			t.Fatalf("%s: read of %v after batch %d: %v", name, tg, bi, err)
		}
		if d := model.DiffPoints(tg.String(), got, models[b.T], false); d != "" {
			t.Fatalf("%s: after batch %d to %v (%s):\n%s", name, bi, tg, describe(b.Pts), d)
		}
	}
	return models
}

func describe(ps data.Points) string {
	s := ""
	for _, p := range ps {
		s += fix.FromPoint(p).String() + " "
	}
	return s
}

func TestPropNewestWins(t *testing.T) {
	rapid.Check(t, func(t *rapid.T) {
		sc := genScenario(t)
		d1 := genDelivery(t, sc, "A")
		d2 := genDelivery(t, sc, "B")
		var rs runStats
		inA := setup(t)
		defer inA.Close()
		mA := run(t, inA, sc, d1, &rs, "instance A")
		inB := setup(t)
		defer inB.Close()
		var rs2 runStats
		_ = run(t, inB, sc, d2, &rs2, "instance B")
		// order independence, stated directly: both instances read the same
		for i, tg := range sc.targets {
			a, err := read(inA, tg)
			if err != nil {
				t.Fatalf("final read A %v: %v", tg, err)
			}
			b, err := read(inB, tg)
			if err != nil {
				t.Fatalf("final read B %v: %v", tg, err)
			}
			// the root's init points carry wall-clock times that differ between
			// the instances; compare each against the generated part of the model
			ms := model.PointSet{}
			for id, p := range mA[i] {
				ms[id] = p
			}
			if d := model.DiffPoints("A "+tg.String(), a, ms, false); d != "" {
				t.Fatalf("final state of instance A:\n%s", d)
			}
			for _, bp := range b {
				id := model.IdentOf(bp.Type, bp.Key)
				w, ok := ms[id]
				if ok && !model.SamePoint(bp, w, false) && !isInitPoint(tg, bp) {
					t.Fatalf("two delivery orders of the same points disagree on %v %v:\n A/model: %v\n B: %v", tg, id, w, bp)
				}
			}
			if len(a) != len(b) {
				t.Fatalf("two delivery orders of the same points give %d vs %d points on %v", len(a), len(b), tg)
			}
		}
		var cls []string
		for name, on := range map[string]bool{"stale": rs.stale || rs2.stale, "dupInBatch": rs.dupInBatch || rs2.dupInBatch,
			"emptyAndZeroKey": rs.emptyAndZero || rs2.emptyAndZero, "concatCollision": rs.concat || rs2.concat,
			"redelivery": rs.redelivered || rs2.redelivered} {
			if on {
				cls = append(cls, name)
			}
		}
		hasEdge := false
		for _, tg := range sc.targets {
			if tg.Parent != "" {
				hasEdge = true
			}
		}
		if hasEdge {
			cls = append(cls, "edgeTarget")
		}
		if len(sc.points) > 60 {
			cls = append(cls, "batch>=50points")
		}
		if sc.sameContent {
			cls = append(cls, "sameContentNewerTime")
		}
		nt := (rs.stale && rs.dupInBatch) || (rs2.stale && rs2.dupInBatch)
		stats.Case(nt, stats.Digest(fmt.Sprint(sc.targets), len(sc.points), fmt.Sprint(d1)), cls...)
		if nt && stats.WantSample() {
			var bl []string
			for _, b := range d1 {
				bl = append(bl, sc.targets[b.T].String()+": "+describe(b.Pts))
			}
			if len(bl) > 6 {
				bl = append(bl[:6], fmt.Sprintf("... %d more batches", len(bl)-6))
			}
			stats.Sample(map[string]any{"targets": fmt.Sprint(sc.targets), "distinct_points": len(sc.points), "batches_A": bl})
		}
	})
}

// isInitPoint: points written by store initialisation with wall-clock time
// (only on the root's own edge) differ between two instances by design.
func isInitPoint(tg target, p fix.P) bool {
	return tg.Parent == "root" && p.Type == data.PointTypeTombstone && p.Value == 0 && p.Origin == "" && p.Text == ""
}
