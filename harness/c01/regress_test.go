package c01

import (
	"testing"
	"time"

	"github.com/simpleiot/simpleiot/data"

	"verif/internal/fix"
	"verif/internal/model"
)

// literal replays of the defects this check found on the pinned commit

func deliver(t *testing.T, tg target, batches ...data.Points) {
	in := setup(t)
	defer in.Close()
	m := model.PointSet{}
	init, err := read(in, tg)
	if err != nil {
		t.Fatal(err)
	}
	for _, p := range init {
		m.Apply(p)
	}
	for i, b := range batches {
		r, err := fix.Write(in.NC, tg.subject(), b)
		if err != nil || r != "" {
			t.Fatalf("batch %d: reply %q err %v", i, r, err)
		}
		for _, p := range b {
			m.Apply(fix.FromPoint(p))
		}
		got, err := read(in, tg)
		if err != nil {
			t.Fatal(err)
		}
		if d := model.DiffPoints(tg.String(), got, m, false); d != "" {
			t.Fatalf("after batch %d:\n%s", i, d)
		}
	}
}

func at(ns int64) time.Time { return time.Unix(0, ns) }

// (type+key) concatenations that coincide inside one batch
func TestRegressConcatCollision(t *testing.T) {
	for _, tg := range []target{{ID: "n1"}, {ID: "n0", Parent: "n1"}} {
		deliver(t, tg, data.Points{
			{Type: "ab", Key: "0", Time: at(5), Value: 1},
			{Type: "a", Key: "b0", Time: at(6), Value: 2},
		})
	}
}

// key "" and key "0" are one identity, also inside one batch
func TestRegressBlankAndZeroKeyInOneBatch(t *testing.T) {
	for _, tg := range []target{{ID: "n1"}, {ID: "n0", Parent: "n1"}} {
		deliver(t, tg, data.Points{
			{Type: "a", Key: "", Time: at(10), Value: 1},
			{Type: "a", Key: "0", Time: at(9), Value: 2},
		}, data.Points{
			{Type: "a", Key: "0", Time: at(7), Value: 3},
		})
	}
}

// binary data is a field of the point like any other
func TestRegressDataFieldKept(t *testing.T) {
	for _, tg := range []target{{ID: "n1"}, {ID: "n0", Parent: "n1"}} {
		deliver(t, tg, data.Points{{Type: "a", Key: "00", Time: at(-1), Data: []byte{0, 0}}})
	}
}
